"""R6: FieldsInSetCanMerge / SameResponseShape from the specification, on expanded selection sets.

Judged only on documents where every field exists and there are no fragment cycles.
typename_typed=False is the variant model in which __typename has no field definition
(used only to *classify* a disagreement as the known finding, never to excuse another one).
"""
import collections

from graphql import GraphQLNonNull, GraphQLString, is_leaf_type, is_list_type, is_non_null_type, is_object_type, is_wrapping_type
from graphql.language import ast as A

# ---------------- reference ----------------
def named(t):
    while is_wrapping_type(t): t = t.of_type
    return t

class Spec:
    def __init__(self, schema, doc, typename_typed=True):
        self.schema = schema
        self.typename_typed = typename_typed
        self.frags = {d.name.value: d for d in doc.definitions if isinstance(d, A.FragmentDefinitionNode)}
        self.done = set()

    def collect(self, pairs):
        """pairs: list of (selection_set, parent_type) -> list of (parent_type, field_node)"""
        out = []; visited = set()
        def walk(ss, pt):
            for sel in ss.selections:
                if isinstance(sel, A.FieldNode): out.append((pt, sel))
                elif isinstance(sel, A.InlineFragmentNode):
                    t = self.schema.type_map[sel.type_condition.name.value] if sel.type_condition else pt
                    walk(sel.selection_set, t)
                else:
                    key = (sel.name.value,)
                    if key in visited: continue
                    visited.add(key)
                    fr = self.frags.get(sel.name.value)
                    if fr: walk(fr.selection_set, self.schema.type_map[fr.type_condition.name.value])
        for ss, pt in pairs: walk(ss, pt)
        return out

    def ftype(self, pt, node):
        if node.name.value == '__typename': return GraphQLNonNull(GraphQLString) if self.typename_typed else None
        return pt.fields[node.name.value].type

    def same_shape(self, fa, fb):
        key = ('shape', id(fa[1]), id(fb[1]), fa[0].name, fb[0].name)
        if key in self.done: return True
        self.done.add(key)
        ta, tb = self.ftype(*fa), self.ftype(*fb)
        if ta is None or tb is None: return True   # variant model: __typename has no definition
        while True:
            if is_non_null_type(ta) or is_non_null_type(tb):
                if not (is_non_null_type(ta) and is_non_null_type(tb)): return False
                ta, tb = ta.of_type, tb.of_type
            if is_list_type(ta) or is_list_type(tb):
                if not (is_list_type(ta) and is_list_type(tb)): return False
                ta, tb = ta.of_type, tb.of_type
                continue
            break
        if is_leaf_type(ta) or is_leaf_type(tb): return ta is tb
        merged = self.collect([(f[1].selection_set, named(self.ftype(*f))) for f in (fa, fb) if f[1].selection_set])
        groups = collections.defaultdict(list)
        for f in merged: groups[f[1].alias.value if f[1].alias else f[1].name.value].append(f)
        for g in groups.values():
            for i in range(len(g)):
                for j in range(i + 1, len(g)):
                    if not self.same_shape(g[i], g[j]): return False
        return True

    def args_equal(self, a, b):
        def norm(v):
            if isinstance(v, A.ObjectValueNode): return ('obj', tuple(sorted((f.name.value, norm(f.value)) for f in v.fields)))
            if isinstance(v, A.ListValueNode): return ('list', tuple(norm(x) for x in v.values))
            if isinstance(v, A.VariableNode): return ('var', v.name.value)
            if isinstance(v, A.NullValueNode): return ('null',)
            return (v.kind, v.value)
        da = {x.name.value: norm(x.value) for x in a.arguments or ()}
        db = {x.name.value: norm(x.value) for x in b.arguments or ()}
        return da == db

    def can_merge(self, fields):
        groups = collections.defaultdict(list)
        for f in fields: groups[f[1].alias.value if f[1].alias else f[1].name.value].append(f)
        for g in groups.values():
            for i in range(len(g)):
                for j in range(i + 1, len(g)):
                    fa, fb = g[i], g[j]
                    if fa[1] is fb[1] and fa[0] is fb[0]: continue
                    if not self.same_shape(fa, fb): return False
                    if fa[0] is fb[0] or not is_object_type(fa[0]) or not is_object_type(fb[0]):
                        key = ('merge', id(fa[1]), id(fb[1]))
                        if fa[1].name.value != fb[1].name.value: return False
                        if not self.args_equal(fa[1], fb[1]): return False
                        if key in self.done: continue
                        self.done.add(key)
                        merged = self.collect([(f[1].selection_set, named(self.ftype(*f))) for f in (fa, fb) if f[1].selection_set])
                        if not self.can_merge(merged): return False
        return True

def spec_ok(schema, doc, typename_typed=True):
    sp = Spec(schema, doc, typename_typed)
    # every selection set in the document, with its parent type
    ok = True
    def visit_ss(ss, pt):
        nonlocal ok
        sp.done = set()
        if not sp.can_merge(sp.collect([(ss, pt)])): ok = False
        for sel in ss.selections:
            if isinstance(sel, A.FieldNode):
                if sel.selection_set and sel.name.value != '__typename':
                    visit_ss(sel.selection_set, named(pt.fields[sel.name.value].type))
            elif isinstance(sel, A.InlineFragmentNode):
                visit_ss(sel.selection_set, schema.type_map[sel.type_condition.name.value] if sel.type_condition else pt)
    for d in doc.definitions:
        if isinstance(d, A.OperationDefinitionNode): visit_ss(d.selection_set, schema.query_type)
        elif isinstance(d, A.FragmentDefinitionNode): visit_ss(d.selection_set, schema.type_map[d.type_condition.name.value])
    return ok

