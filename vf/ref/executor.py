"""R3: reference executor written from the GraphQL specification's execution section.

Shares with the library only the AST node classes and the schema *objects* it is
handed (type predicates, type_map, possible types); it never calls collect_fields,
get_argument_values, coerce_*, complete_value or anything else under graphql.execution.

Model decisions (from the spec text, see DESIGN.md C02): response keys in order of
first occurrence with fragments inlined at the spread; only the first field node's
arguments are coerced for a merged group; an argument whose variable has no runtime
value is absent (default applies, else omitted) unless required; inside a list literal
a value-less variable becomes null, inside an input-object literal the field is absent;
a single value coerces to a one-item list; Float accepts Int; ID accepts Int and yields
a string; enums yield their internal value; execution is depth-first in document order
and a non-null violation abandons the remaining siblings of the nulled ancestor.
"""
from __future__ import annotations

import collections

from graphql import (GraphQLBoolean, GraphQLList, GraphQLNonNull, is_abstract_type, is_enum_type,
                     is_input_object_type, is_leaf_type, is_list_type, is_non_null_type, is_object_type)
from graphql.language import ast as A


class FieldError(Exception):
    def __init__(self, path):
        self.path = list(path)


class RequestError(Exception):
    pass


class Invalid(Exception):
    """Input coercion failure."""


class ExemptNull(Invalid):
    """A nullable variable that is null reached a non-null position (the one run-time exemption)."""


MISSING = object()


class Ref:
    def __init__(self, schema, doc, value_fn, variables=None, op_name=None, root_value=None):
        self.schema, self.doc, self.value_fn = schema, doc, value_fn
        self.raw_vars = variables or {}
        self.op_name = op_name
        self.errors = []          # list of paths
        self.exempt_errors = []   # subset caused by the null-variable exemption
        self.fault_errors = []    # subset caused by data faults (everything else)
        self.calls = []           # (path, args)
        self.frags = {d.name.value: d for d in doc.definitions if isinstance(d, A.FragmentDefinitionNode)}
        self.propagate = True
        self.root_value = root_value
        self.invalid_errors = []  # coercion failures that are NOT the exemption: validation should have rejected them
        self.var_has_default = {}
        self.merge_conflicts = []  # groups executed although their fields differ in name or arguments
        self.type_at = {}          # response path (tuple) -> name of the object type executed there

    # -- operation selection
    def get_operation(self):
        ops = [d for d in self.doc.definitions if isinstance(d, A.OperationDefinitionNode)]
        if self.op_name is None:
            if len(ops) != 1:
                raise RequestError
            return ops[0]
        named = [o for o in ops if o.name and o.name.value == self.op_name]
        if len(named) != 1:
            raise RequestError
        return named[0]

    def run(self, op=None, force_no_propagation=False, partial_lists=False):
        self.partial_lists = partial_lists
        try:
            op = op or self.get_operation()
            self.op = op
            self.vars = self.coerce_variables(op)
        except RequestError:
            return {'data': None, 'request_error': True}
        self.propagate = not any(d.name.value == 'experimental_disableErrorPropagation' for d in op.directives or ())
        if force_no_propagation:
            self.propagate = False
        root = self.schema.get_root_type(op.operation)
        if root is None:
            return {'data': None, 'request_error': True}
        root_value = self.root_value if self.root_value is not None else {'__typename': root.name, '__pk': ()}
        try:
            data = self.exec_selection_set([op.selection_set], root, root_value, [])
        except FieldError:
            data = None
        except Invalid as e:      # a directive argument of the root selection set failed to coerce: no position to blame
            self.record_error(None, e)
            data = None
        return {'data': data, 'error_paths': self.errors, 'calls': self.calls,
                'exempt_error_paths': self.exempt_errors, 'invalid_error_paths': self.invalid_errors,
                'fault_error_paths': self.fault_errors, 'merge_conflicts': self.merge_conflicts}

    # -- variables
    def coerce_variables(self, op):
        out = {}
        for vd in op.variable_definitions or ():
            name = vd.variable.name.value
            t = self.type_from_ast(vd.type)
            self.var_has_default[name] = vd.default_value is not None
            has = name in self.raw_vars
            if not has and vd.default_value is not None:
                try:
                    out[name] = self.coerce_literal(vd.default_value, t, {})
                except Invalid:
                    raise RequestError
            elif is_non_null_type(t) and (not has or self.raw_vars[name] is None):
                raise RequestError
            elif has:
                v = self.raw_vars[name]
                out[name] = None if v is None else self.coerce_value(v, t)
        return out

    def type_from_ast(self, n):
        if isinstance(n, A.ListTypeNode):
            return GraphQLList(self.type_from_ast(n.type))
        if isinstance(n, A.NonNullTypeNode):
            return GraphQLNonNull(self.type_from_ast(n.type))
        return self.schema.type_map[n.name.value]

    def coerce_value(self, v, t):
        try:
            return self._cv(v, t)
        except Invalid:
            raise RequestError

    def _cv(self, v, t):
        if is_non_null_type(t):
            if v is None:
                raise Invalid
            return self._cv(v, t.of_type)
        if v is None:
            return None
        if is_list_type(t):
            if isinstance(v, (list, tuple)):
                return [self._cv(i, t.of_type) for i in v]
            return [self._cv(v, t.of_type)]
        if is_input_object_type(t):
            if not isinstance(v, dict):
                raise Invalid
            res = {}
            for k in v:
                if k not in t.fields:
                    raise Invalid
            for fname, fdef in t.fields.items():
                if fname in v:
                    res[fname] = self._cv(v[fname], fdef.type)
                elif fdef.default is not None:
                    res[fname] = self.default_of(fdef)
                elif is_non_null_type(fdef.type):
                    raise Invalid
            self.check_one_of(t, res)
            return res
        return self.scalar_in(v, t)

    def check_one_of(self, t, res):
        if getattr(t, 'is_one_of', False):
            if len(res) != 1 or next(iter(res.values())) is None:
                raise Invalid

    def scalar_in(self, v, t):
        n = t.name
        # runtime numbers follow JSON semantics: 3 and 3.0 are the same number
        if n == 'Int':
            if isinstance(v, bool) or not isinstance(v, (int, float)) or v != v or v in (float('inf'), float('-inf')):
                raise Invalid
            if v != int(v) or not -2**31 <= v < 2**31:
                raise Invalid
            return int(v)
        if n == 'Float':
            if isinstance(v, bool) or not isinstance(v, (int, float)):
                raise Invalid
            try:
                f = float(v)
            except OverflowError:
                raise Invalid
            if f != f or f in (float('inf'), float('-inf')):
                raise Invalid
            return f
        if n == 'String':
            if not isinstance(v, str):
                raise Invalid
            return v
        if n == 'Boolean':
            if not isinstance(v, bool):
                raise Invalid
            return v
        if n == 'ID':
            if isinstance(v, str):
                return v
            if isinstance(v, int) and not isinstance(v, bool):
                try:
                    return str(v)
                except ValueError:      # beyond the interpreter's int -> str limit: not representable
                    raise Invalid
            if isinstance(v, float) and v == v and v not in (float('inf'), float('-inf')) and v == int(v):
                return str(int(v))
            raise Invalid
        if is_enum_type(t):
            if not isinstance(v, str) or v not in t.values:
                raise Invalid
            return t.values[v].value
        return v  # custom scalar: pass-through

    def default_of(self, d):
        lit = d.default.literal
        return self.coerce_literal(lit, d.type, {}) if lit is not None else self._cv(d.default.value, d.type)

    def coerce_literal(self, node, t, variables, pos_default=False):
        """Spec input coercion of a literal that may contain variables.
        Returns MISSING only for a top-level value-less variable.
        pos_default: the position (argument / input field) has a default value of its own."""
        if isinstance(node, A.VariableNode):
            name = node.name.value
            if name not in variables:
                return MISSING
            v = variables[name]
            if v is None and is_non_null_type(t):
                # the one case the specification defers to run time: the usage was allowed because a default exists
                raise ExemptNull if (pos_default or self.var_has_default.get(name)) else Invalid
            return v
        if is_non_null_type(t):
            if isinstance(node, A.NullValueNode):
                raise Invalid
            return self.coerce_literal(node, t.of_type, variables)
        if isinstance(node, A.NullValueNode):
            return None
        if is_list_type(t):
            if isinstance(node, A.ListValueNode):
                out = []
                for item in node.values:
                    c = self.coerce_literal(item, t.of_type, variables)
                    if c is MISSING:
                        if is_non_null_type(t.of_type):
                            raise Invalid          # list items have no defaults: never the exemption
                        c = None
                    out.append(c)
                return out
            c = self.coerce_literal(node, t.of_type, variables)
            if c is MISSING:
                return MISSING
            return [c]
        if is_input_object_type(t):
            if not isinstance(node, A.ObjectValueNode):
                raise Invalid
            given = {f.name.value: f.value for f in node.fields}
            for k in given:
                if k not in t.fields:
                    raise Invalid
            res = {}
            for fname, fdef in t.fields.items():
                c = MISSING
                if fname in given:
                    c = self.coerce_literal(given[fname], fdef.type, variables, fdef.default is not None)
                if c is MISSING:
                    if fdef.default is not None:
                        res[fname] = self.default_of(fdef)
                    elif is_non_null_type(fdef.type):
                        raise Invalid
                else:
                    res[fname] = c
            self.check_one_of(t, res)
            return res
        n = t.name
        if n == 'Int':
            if not isinstance(node, A.IntValueNode):
                raise Invalid
            v = int(node.value)
            if not -2**31 <= v < 2**31:
                raise Invalid
            return v
        if n == 'Float':
            if not isinstance(node, (A.IntValueNode, A.FloatValueNode)):
                raise Invalid
            return float(node.value)
        if n == 'String':
            if not isinstance(node, A.StringValueNode):
                raise Invalid
            return node.value
        if n == 'Boolean':
            if not isinstance(node, A.BooleanValueNode):
                raise Invalid
            return node.value
        if n == 'ID':
            if not isinstance(node, (A.StringValueNode, A.IntValueNode)):
                raise Invalid
            return node.value
        if is_enum_type(t):
            if not isinstance(node, A.EnumValueNode) or node.value not in t.values:
                raise Invalid
            return t.values[node.value].value
        return untyped(node, variables)


def _norm(v):
    if isinstance(v, A.ObjectValueNode):
        return ('obj', tuple(sorted((f.name.value, _norm(f.value)) for f in v.fields)))
    if isinstance(v, A.ListValueNode):
        return ('list', tuple(_norm(x) for x in v.values))
    if isinstance(v, A.VariableNode):
        return ('var', v.name.value)
    if isinstance(v, A.NullValueNode):
        return ('null',)
    return (v.kind, v.value)


def args_sig(field):
    return tuple(sorted((a.name.value, _norm(a.value)) for a in field.arguments or ()))


def untyped(node, variables):
    if isinstance(node, A.NullValueNode):
        return None
    if isinstance(node, A.IntValueNode):
        return int(node.value)
    if isinstance(node, A.FloatValueNode):
        return float(node.value)
    if isinstance(node, (A.StringValueNode, A.BooleanValueNode, A.EnumValueNode)):
        return node.value
    if isinstance(node, A.ListValueNode):
        return [untyped(v, variables) for v in node.values]
    if isinstance(node, A.ObjectValueNode):
        return {f.name.value: untyped(f.value, variables) for f in node.fields}
    if isinstance(node, A.VariableNode):
        return variables.get(node.name.value)
    raise Invalid


def _install_execution(cls):
    def directive_arg(self, node, dname):
        for d in node.directives or ():
            if d.name.value == dname:
                for a in d.arguments or ():
                    if a.name.value == 'if':
                        return self.coerce_literal(a.value, GraphQLNonNull(GraphQLBoolean), self.vars)
        return None

    def included(self, node):
        if self.directive_arg(node, 'skip') is True:
            return False
        if self.directive_arg(node, 'include') is False:
            return False
        return True

    def applies(self, type_cond, obj_type):
        if type_cond is None:
            return True
        t = self.schema.type_map.get(type_cond.name.value)
        if t is None:
            return False
        if t is obj_type:
            return True
        if is_abstract_type(t):
            return self.schema.is_sub_type(t, obj_type)
        return False

    def collect(self, obj_type, selection_sets):
        grouped = collections.OrderedDict()
        visited = set()

        def walk(ss):
            for sel in ss.selections:
                if not self.included(sel):
                    continue
                if isinstance(sel, A.FieldNode):
                    key = sel.alias.value if sel.alias else sel.name.value
                    grouped.setdefault(key, []).append(sel)
                elif isinstance(sel, A.FragmentSpreadNode):
                    name = sel.name.value
                    if name in visited:
                        continue
                    visited.add(name)
                    frag = self.frags.get(name)
                    if frag is None or not self.applies(frag.type_condition, obj_type):
                        continue
                    walk(frag.selection_set)
                else:
                    if not self.applies(sel.type_condition, obj_type):
                        continue
                    walk(sel.selection_set)
        for ss in selection_sets:
            walk(ss)
        return grouped

    def exec_selection_set(self, selection_sets, obj_type, obj_value, path):
        result = {}
        self.type_at[tuple(path)] = obj_type.name
        for key, fields in self.collect(obj_type, selection_sets).items():
            fname = fields[0].name.value
            if len(fields) > 1:
                # on one and the same object type, fields sharing a response key must be the same field with identical arguments
                sigs = {(f.name.value, args_sig(f)) for f in fields}
                if len(sigs) > 1:
                    self.merge_conflicts.append((list(path) + [key], sorted(n for n, _ in sigs)))
            if fname == '__typename':
                result[key] = obj_type.name
                continue
            fdef = obj_type.fields.get(fname)
            if fdef is None:
                continue
            result[key] = self.exec_field(obj_type, obj_value, fdef, fields, path + [key])
        return result

    def record_error(self, path, exc):
        path = None if path is None else list(path)
        self.errors.append(path)
        if isinstance(exc, ExemptNull):
            self.exempt_errors.append(path)
        elif isinstance(exc, Invalid):
            self.invalid_errors.append(path)
        else:
            self.fault_errors.append(path)

    def exec_field(self, obj_type, obj_value, fdef, fields, path):
        try:
            args = self.coerce_args(fdef, fields[0])
            self.calls.append((tuple(path), args))
            raw = self.value_fn(path, obj_type.name, fields[0].name.value, args, fdef.type)
            return self.complete(fdef.type, fields, raw, path)
        except FieldError:
            if is_non_null_type(fdef.type) and self.propagate:
                raise
            return None
        except Exception as e:  # noqa: BLE001
            self.record_error(path, e)
            if is_non_null_type(fdef.type) and self.propagate:
                raise FieldError(path)
            return None

    def coerce_args(self, fdef, field):
        given = {a.name.value: a.value for a in field.arguments or ()}
        out = {}
        for name, adef in fdef.args.items():
            node = given.get(name)
            c = MISSING
            if node is not None:
                c = self.coerce_literal(node, adef.type, self.vars, adef.default is not None)
            if c is MISSING:
                if adef.default is not None:
                    out[name] = self.default_of(adef)
                elif is_non_null_type(adef.type):
                    raise Invalid
            else:
                out[name] = c
        return out

    def complete(self, t, fields, raw, path):
        if isinstance(raw, Exception):
            raise raw
        if is_non_null_type(t):
            c = self.complete(t.of_type, fields, raw, path)
            if c is None:
                raise TypeError('null for non-null')
            return c
        if raw is None:
            return None
        if is_list_type(t):
            failing = None
            if type(raw).__name__ == 'FailingList':      # G-data's list source that raises after its items
                failing, raw = raw, raw.items
            if not isinstance(raw, (list, tuple)):
                raise TypeError('not iterable')
            out = []
            for i, item in enumerate(raw):
                ipath = path + [i]
                try:
                    out.append(self.complete(t.of_type, fields, item, ipath))
                except FieldError:
                    if is_non_null_type(t.of_type) and self.propagate:
                        raise
                    out.append(None)
                except Exception as e:  # noqa: BLE001
                    self.record_error(ipath, e)
                    if is_non_null_type(t.of_type) and self.propagate:
                        raise FieldError(ipath)
                    out.append(None)
            if failing is not None:
                if getattr(self, 'partial_lists', False):
                    # reference for streamed delivery: items that arrived before the source failed stay
                    self.record_error(path, failing.exc)
                    return out
                raise failing.exc       # the source failed: a field error for the list field itself
            return out
        if is_leaf_type(t):
            return self.scalar_out(raw, t)
        if is_abstract_type(t):
            tn = raw.get('__typename') if isinstance(raw, dict) else None
            ot = self.schema.type_map.get(tn) if isinstance(tn, str) else None
            if ot is None or not is_object_type(ot) or not self.schema.is_sub_type(t, ot):
                raise TypeError('abstract')
            t = ot
        return self.exec_selection_set([f.selection_set for f in fields if f.selection_set], t, raw, path)

    def scalar_out(self, v, t):
        n = t.name
        if n == 'Int':
            if isinstance(v, bool):
                return int(v)
            if isinstance(v, int) and -2**31 <= v < 2**31:
                return v
            if isinstance(v, float) and v == int(v) and -2**31 <= v < 2**31:
                return int(v)
            raise TypeError
        if n == 'Float':
            if isinstance(v, (int, float)) and not isinstance(v, bool):
                return float(v)
            raise TypeError
        if n in ('String', 'ID'):
            if isinstance(v, str):
                return v
            raise TypeError
        if n == 'Boolean':
            if isinstance(v, bool):
                return v
            raise TypeError
        if is_enum_type(t):
            if isinstance(v, (dict, list)):
                raise TypeError
            for name, ev in t.values.items():
                if ev.value == v:
                    return name
            raise TypeError
        if isinstance(v, dict) and v.get('bad') == 'leaf':
            return v  # custom scalars pass everything through
        return v

    for f in (directive_arg, included, applies, collect, exec_selection_set, record_error, exec_field, coerce_args,
              complete, scalar_out):
        setattr(cls, f.__name__, f)


_install_execution(Ref)
