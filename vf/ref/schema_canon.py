"""R10/R9-lite: one canonical description of a schema, extracted three independent ways.

  from_model(model)          - from the generator's plain records
  from_schema(schema)        - by walking the library's schema objects (attributes only)
  from_introspection(result) - from an introspection result (JSON)

and diff(a, b) listing every difference.  Defaults are compared as normalised values
(lists wrapped, numbers numeric, IDs text, object keys sorted), never as text.
"""
from __future__ import annotations

from graphql import (is_enum_type, is_input_object_type, is_interface_type, is_list_type, is_non_null_type, is_object_type,
                     is_scalar_type, is_union_type)
from graphql.language import ast as A
from graphql.language import parse_const_value
from graphql.pyutils import Undefined

BUILTIN = {'Int', 'Float', 'String', 'Boolean', 'ID'}
SPECIFIED_DIRECTIVES = {'skip', 'include', 'deprecated', 'specifiedBy', 'oneOf', 'defer', 'stream', 'experimental_disableErrorPropagation'}
NO_DEFAULT = ('no-default',)


# ---------- type references as strings ----------
def ref_str(r):
    if r[0] == 'n':
        return r[1]
    if r[0] == 'l':
        return '[' + ref_str(r[1]) + ']'
    return ref_str(r[1]) + '!'


def parse_ref(s):
    if s.endswith('!'):
        return ('nn', parse_ref(s[:-1]))
    if s.startswith('['):
        return ('l', parse_ref(s[1:-1]))
    return ('n', s)


# ---------- default normalisation ----------
def kind_of(name, kinds):
    if name in BUILTIN:
        return name
    return kinds.get(name, 'scalar')


def norm_literal(node, ref, kinds, fields_of):
    """Normalise a const literal AST for a type reference."""
    if isinstance(node, A.NullValueNode):
        return None
    if ref[0] == 'nn':
        return norm_literal(node, ref[1], kinds, fields_of)
    if ref[0] == 'l':
        if isinstance(node, A.ListValueNode):
            return ('list', tuple(norm_literal(v, ref[1], kinds, fields_of) for v in node.values))
        return ('list', (norm_literal(node, ref[1], kinds, fields_of),))
    k = kind_of(ref[1], kinds)
    if k in ('Int', 'Float') and isinstance(node, (A.IntValueNode, A.FloatValueNode)):
        return ('num', float(node.value))
    if k == 'ID' and isinstance(node, (A.IntValueNode, A.StringValueNode)):
        return ('text', str(node.value))
    if k == 'input' and isinstance(node, A.ObjectValueNode):
        ft = fields_of(ref[1])
        return ('obj', tuple(sorted((f.name.value, norm_literal(f.value, ft.get(f.name.value, ('n', 'String')), kinds, fields_of)) for f in node.fields)))
    return untyped(node)


def untyped(node):
    if isinstance(node, A.NullValueNode):
        return None
    if isinstance(node, (A.IntValueNode, A.FloatValueNode)):
        return ('num', float(node.value))
    if isinstance(node, A.StringValueNode):
        return ('text', node.value)
    if isinstance(node, A.BooleanValueNode):
        return ('bool', node.value)
    if isinstance(node, A.EnumValueNode):
        return ('enum', node.value)
    if isinstance(node, A.ListValueNode):
        return ('list', tuple(untyped(v) for v in node.values))
    if isinstance(node, A.ObjectValueNode):
        return ('obj', tuple(sorted((f.name.value, untyped(f.value)) for f in node.fields)))
    return ('?', repr(node))


def norm_value(v, ref, kinds, fields_of):
    """Normalise an external Python value for a type reference."""
    if v is None:
        return None
    if ref[0] == 'nn':
        return norm_value(v, ref[1], kinds, fields_of)
    if ref[0] == 'l':
        if isinstance(v, (list, tuple)):
            return ('list', tuple(norm_value(i, ref[1], kinds, fields_of) for i in v))
        return ('list', (norm_value(v, ref[1], kinds, fields_of),))
    k = kind_of(ref[1], kinds)
    if k in ('Int', 'Float') and isinstance(v, (int, float)) and not isinstance(v, bool):
        return ('num', float(v))
    if k == 'ID' and isinstance(v, (int, str)) and not isinstance(v, bool):
        return ('text', str(v))
    if k == 'enum' and isinstance(v, str):
        return ('enum', v)
    if k == 'input' and isinstance(v, dict):
        ft = fields_of(ref[1])
        return ('obj', tuple(sorted((n, norm_value(x, ft.get(n, ('n', 'String')), kinds, fields_of)) for n, x in v.items())))
    return untyped_value(v)


def untyped_value(v):
    if v is None:
        return None
    if isinstance(v, bool):
        return ('bool', v)
    if isinstance(v, (int, float)):
        return ('num', float(v))
    if isinstance(v, str):
        return ('text', v)
    if isinstance(v, (list, tuple)):
        return ('list', tuple(untyped_value(i) for i in v))
    if isinstance(v, dict):
        return ('obj', tuple(sorted((n, untyped_value(x)) for n, x in v.items())))
    return ('?', repr(v))


# ---------- from the model ----------
def from_model(m):
    kinds = {n: t['kind'] for n, t in m['types'].items()}

    def fields_of(name):
        return {fn: f['type'] for fn, f in m['types'][name]['fields'].items()}

    def ivs(args):
        return [(n, {'type': ref_str(a['type']), 'description': a['desc'], 'deprecation': a['deprecation'],
                     'default': NO_DEFAULT if a['default'] is None else norm_literal(parse_const_value(a['default']), a['type'], kinds, fields_of)})
                for n, a in args.items()]
    types = []
    for name, t in m['types'].items():
        k = t['kind']
        d = {'kind': k, 'description': t['desc']}
        if k == 'scalar':
            d['specified_by'] = t['specified_by']
        elif k in ('object', 'interface'):
            d['interfaces'] = list(t['interfaces'])
            d['fields'] = [(fn, {'type': ref_str(f['type']), 'args': ivs(f['args']), 'description': f['desc'], 'deprecation': f['deprecation']})
                           for fn, f in t['fields'].items()]
        elif k == 'union':
            d['members'] = list(t['members'])
        elif k == 'enum':
            d['values'] = [(vn, {'description': v['desc'], 'deprecation': v['deprecation']}) for vn, v in t['values'].items()]
        else:
            d['input_fields'] = ivs(t['fields'])
            d['one_of'] = bool(t.get('one_of'))
        types.append((name, d))
    directives = [(n, {'description': d['desc'], 'args': ivs(d['args']), 'locations': list(d['locations']), 'repeatable': bool(d['repeatable']),
                       'deprecation': d.get('deprecation')}) for n, d in m['directives'].items()]
    return {'description': m['schema_desc'], 'roots': dict(m['roots']), 'types': types, 'directives': directives}


# ---------- from schema objects ----------
def type_ref_of(t):
    if is_non_null_type(t):
        return ('nn', type_ref_of(t.of_type))
    if is_list_type(t):
        return ('l', type_ref_of(t.of_type))
    return ('n', t.name)


def from_schema(schema):
    tm = {n: t for n, t in schema.type_map.items() if not n.startswith('__') and n not in BUILTIN}
    kinds = {}
    for n, t in schema.type_map.items():
        kinds[n] = ('scalar' if is_scalar_type(t) else 'object' if is_object_type(t) else 'interface' if is_interface_type(t) else
                    'union' if is_union_type(t) else 'enum' if is_enum_type(t) else 'input')

    def fields_of(name):
        return {fn: type_ref_of(f.type) for fn, f in schema.type_map[name].fields.items()}

    def default_of(a):
        ref = type_ref_of(a.type)
        d = getattr(a, 'default', None)
        if d is not None:
            if d.literal is not None:
                return norm_literal(d.literal, ref, kinds, fields_of)
            return norm_value(d.value, ref, kinds, fields_of)
        dv = getattr(a, 'default_value', Undefined)
        if dv is not Undefined:
            return ('legacy', norm_value(dv, ref, kinds, fields_of))
        return NO_DEFAULT

    def ivs(args):
        return [(n, {'type': ref_str(type_ref_of(a.type)), 'description': a.description, 'deprecation': a.deprecation_reason, 'default': default_of(a)})
                for n, a in args.items()]
    types = []
    for name, t in tm.items():
        k = kinds[name]
        d = {'kind': k, 'description': t.description}
        if k == 'scalar':
            d['specified_by'] = t.specified_by_url
        elif k in ('object', 'interface'):
            d['interfaces'] = [i.name for i in t.interfaces]
            d['fields'] = [(fn, {'type': ref_str(type_ref_of(f.type)), 'args': ivs(f.args), 'description': f.description,
                                 'deprecation': f.deprecation_reason}) for fn, f in t.fields.items()]
        elif k == 'union':
            d['members'] = [x.name for x in t.types]
        elif k == 'enum':
            d['values'] = [(vn, {'description': v.description, 'deprecation': v.deprecation_reason}) for vn, v in t.values.items()]
        else:
            d['input_fields'] = ivs(t.fields)
            d['one_of'] = bool(t.is_one_of)
        types.append((name, d))
    directives = [(d.name, {'description': d.description, 'args': ivs(d.args), 'locations': [l.name for l in d.locations],
                            'repeatable': bool(d.is_repeatable), 'deprecation': getattr(d, 'deprecation_reason', None)})
                  for d in schema.directives if d.name not in SPECIFIED_DIRECTIVES]
    roots = {'query': schema.query_type.name if schema.query_type else None,
             'mutation': schema.mutation_type.name if schema.mutation_type else None,
             'subscription': schema.subscription_type.name if schema.subscription_type else None}
    return {'description': schema.description, 'roots': roots, 'types': types, 'directives': directives}


# ---------- from an introspection result ----------
KIND = {'SCALAR': 'scalar', 'OBJECT': 'object', 'INTERFACE': 'interface', 'UNION': 'union', 'ENUM': 'enum', 'INPUT_OBJECT': 'input'}


def intro_ref(t):
    if t['kind'] == 'NON_NULL':
        return ('nn', intro_ref(t['ofType']))
    if t['kind'] == 'LIST':
        return ('l', intro_ref(t['ofType']))
    return ('n', t['name'])


def from_introspection(result):
    s = result['__schema']
    kinds = {t['name']: KIND[t['kind']] for t in s['types']}
    by_name = {t['name']: t for t in s['types']}

    def fields_of(name):
        return {f['name']: intro_ref(f['type']) for f in by_name[name].get('inputFields') or []}

    def dep(x):
        if 'isDeprecated' not in x:
            return ('not-requested',)
        return x.get('deprecationReason') if x['isDeprecated'] else None

    def ivs(args):
        out = []
        for a in args or []:
            ref = intro_ref(a['type'])
            dv = a.get('defaultValue')
            out.append((a['name'], {'type': ref_str(ref), 'description': a.get('description'), 'deprecation': dep(a),
                                    'default': NO_DEFAULT if dv is None else norm_literal(parse_const_value(dv), ref, kinds, fields_of)}))
        return out
    types = []
    for t in s['types']:
        name = t['name']
        if name.startswith('__') or name in BUILTIN:
            continue
        k = KIND[t['kind']]
        d = {'kind': k, 'description': t.get('description')}
        if k == 'scalar':
            d['specified_by'] = t.get('specifiedByURL')
        elif k in ('object', 'interface'):
            d['interfaces'] = [i['name'] for i in t.get('interfaces') or []]
            d['fields'] = [(f['name'], {'type': ref_str(intro_ref(f['type'])), 'args': ivs(f['args']), 'description': f.get('description'),
                                        'deprecation': dep(f)}) for f in t.get('fields') or []]
        elif k == 'union':
            d['members'] = [x['name'] for x in t.get('possibleTypes') or []]
        elif k == 'enum':
            d['values'] = [(v['name'], {'description': v.get('description'), 'deprecation': dep(v)}) for v in t.get('enumValues') or []]
        else:
            d['input_fields'] = ivs(t.get('inputFields'))
            d['one_of'] = bool(t.get('isOneOf'))
        types.append((name, d))
    directives = [(d['name'], {'description': d.get('description'), 'args': ivs(d['args']), 'locations': list(d['locations']),
                               'repeatable': bool(d.get('isRepeatable')), 'deprecation': dep(d) if 'isDeprecated' in d else None})
                  for d in s['directives'] if d['name'] not in SPECIFIED_DIRECTIVES]
    roots = {op: (s.get(key) or {}).get('name') if s.get(key) else None
             for op, key in (('query', 'queryType'), ('mutation', 'mutationType'), ('subscription', 'subscriptionType'))}
    return {'description': s.get('description'), 'roots': roots, 'types': types, 'directives': directives}


# ---------- comparison ----------
def diff(a, b, ordered_types=True, ordered_members=True, path='schema'):
    """List of human-readable differences between two canonical descriptions."""
    out = []

    def cmp_list(x, y, p, ordered):
        xn, yn = [n for n, _ in x], [n for n, _ in y]
        if (xn != yn) if ordered else (sorted(xn) != sorted(yn)):
            if sorted(xn) != sorted(yn):
                out.append(f'{p}: names differ: only left {sorted(set(xn) - set(yn))}, only right {sorted(set(yn) - set(xn))}')
            else:
                out.append(f'{p}: order differs: {xn} vs {yn}')
        dy = dict(y)
        for n, v in x:
            if n in dy:
                cmp(v, dy[n], f'{p}.{n}')

    def cmp(x, y, p):
        if isinstance(x, dict) and isinstance(y, dict):
            for k in x:
                if k not in y:
                    out.append(f'{p}.{k}: missing on the right')
                    continue
                xv, yv = x[k], y[k]
                if k in ('types',):
                    cmp_list(xv, yv, f'{p}.{k}', ordered_types)
                elif k in ('fields', 'args', 'values', 'input_fields', 'directives'):
                    cmp_list(xv, yv, f'{p}.{k}', ordered_members)
                elif k in ('interfaces', 'members', 'locations') and not ordered_members:
                    if sorted(xv) != sorted(yv):
                        out.append(f'{p}.{k}: {xv} vs {yv}')
                else:
                    cmp(xv, yv, f'{p}.{k}')
            for k in y:
                if k not in x:
                    out.append(f'{p}.{k}: missing on the left')
        elif x != y:
            out.append(f'{p}: {x!r} vs {y!r}')
    cmp(a, b, path)
    return out
