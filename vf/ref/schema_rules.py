"""R8: the specification's type-system rules, checked on a schema *model* (gen/schema.py records).

Only the rule classes the property lists: root types, interface implementation (fields,
covariance, arguments), union members, non-empty types, input/output positions, reserved
names, valid defaults, unbreakable input cycles (incl. cycles through default values), OneOf.
Returns a sorted list of violated rule-class labels (empty = valid).
"""
from __future__ import annotations

from graphql.language import ast as A
from graphql.language import parse_const_value

BUILTIN = {'Int', 'Float', 'String', 'Boolean', 'ID'}


def named_of(r):
    while r[0] != 'n':
        r = r[1]
    return r[1]


def kind(m, name):
    if name in BUILTIN:
        return 'scalar'
    t = m['types'].get(name)
    return t['kind'] if t else None


def is_input_kind(k):
    return k in ('scalar', 'enum', 'input')


def is_output_kind(k):
    return k in ('scalar', 'enum', 'object', 'interface', 'union')


def sub_type(m, a, b):
    """Is type reference a a subtype of (or equal to) b?"""
    if b[0] == 'nn':
        return a[0] == 'nn' and sub_type(m, a[1], b[1])
    if a[0] == 'nn':
        return sub_type(m, a[1], b)
    if b[0] == 'l':
        return a[0] == 'l' and sub_type(m, a[1], b[1])
    if a[0] == 'l':
        return False
    if a[1] == b[1]:
        return True
    kb = kind(m, b[1])
    ta = m['types'].get(a[1])
    if ta is None:
        return False
    if kb == 'interface':
        return ta['kind'] in ('object', 'interface') and b[1] in ta.get('interfaces', [])
    if kb == 'union':
        return ta['kind'] == 'object' and a[1] in m['types'][b[1]]['members']
    return False


def literal_ok(m, node, ref):
    """Const literal coercible to the (input) type reference?"""
    if ref[0] == 'nn':
        return not isinstance(node, A.NullValueNode) and literal_ok(m, node, ref[1])
    if isinstance(node, A.NullValueNode):
        return True
    if ref[0] == 'l':
        if isinstance(node, A.ListValueNode):
            return all(literal_ok(m, v, ref[1]) for v in node.values)
        return literal_ok(m, node, ref[1])
    name = ref[1]
    if name == 'Int':
        return isinstance(node, A.IntValueNode) and -2**31 <= int(node.value) < 2**31
    if name == 'Float':
        if not isinstance(node, (A.IntValueNode, A.FloatValueNode)):
            return False
        f = float(node.value)
        return f == f and f not in (float('inf'), float('-inf'))
    if name == 'String':
        return isinstance(node, A.StringValueNode)
    if name == 'Boolean':
        return isinstance(node, A.BooleanValueNode)
    if name == 'ID':
        return isinstance(node, (A.StringValueNode, A.IntValueNode))
    t = m['types'].get(name)
    if t is None:
        return True
    if t['kind'] == 'enum':
        return isinstance(node, A.EnumValueNode) and node.value in t['values']
    if t['kind'] == 'scalar':
        return True
    if t['kind'] != 'input':
        return True     # not an input type: reported by the position rule, the default is not judged
    if not isinstance(node, A.ObjectValueNode):
        return False
    given = {}
    for f in node.fields:
        if f.name.value in given:
            return False
        given[f.name.value] = f.value
    for k in given:
        if k not in t['fields']:
            return False
    for k, f in t['fields'].items():
        if k in given:
            if not literal_ok(m, given[k], f['type']):
                return False
        elif f['type'][0] == 'nn' and f['default'] is None:
            return False
    if t.get('one_of'):
        if len(given) != 1 or isinstance(next(iter(given.values())), A.NullValueNode):
            return False
    return True


def check(m):
    bad = set()
    T = m['types']
    roots = m['roots']
    # --- root types
    if not roots.get('query'):
        bad.add('root:query-missing')
    seen = {}
    for op, nm in roots.items():
        if nm:
            if kind(m, nm) != 'object':
                bad.add('root:not-an-object-type')
            if nm in seen:
                bad.add('root:same-type-for-two-operations')
            seen[nm] = op

    def reserved(n):
        return n.startswith('__')

    def check_input_value(owner_is_oneof, a, where):
        k = kind(m, named_of(a['type']))
        if not is_input_kind(k):
            bad.add('position:output-type-in-input-position')
            return
        if a.get('deprecation') is not None and a['type'][0] == 'nn' and a['default'] is None:
            bad.add('deprecated:required-argument-or-input-field')
        if a['default'] is not None:
            try:
                node = parse_const_value(a['default'])
            except Exception:  # noqa: BLE001
                return
            if not literal_ok(m, node, a['type']):
                bad.add('default:invalid')

    for name, t in T.items():
        if reserved(name):
            bad.add('name:reserved')
        k = t['kind']
        if k in ('object', 'interface'):
            if not t['fields']:
                bad.add('empty:fields')
            for fn, f in t['fields'].items():
                if reserved(fn):
                    bad.add('name:reserved')
                if not is_output_kind(kind(m, named_of(f['type']))):
                    bad.add('position:input-type-in-output-position')
                for an, a in f['args'].items():
                    if reserved(an):
                        bad.add('name:reserved')
                    check_input_value(False, a, f'{name}.{fn}({an}:)')
            # interfaces
            if len(set(t['interfaces'])) != len(t['interfaces']):
                bad.add('interface:implemented-twice')
            for i in t['interfaces']:
                if i == name:
                    bad.add('interface:implements-itself')
                    continue
                it = T.get(i)
                if it is None or it['kind'] != 'interface':
                    bad.add('interface:not-an-interface')
                    continue
                for tr in it['interfaces']:
                    if tr not in t['interfaces'] and tr != name:
                        bad.add('interface:transitive-missing')
                    if tr == name:
                        bad.add('interface:circular')
                for fn, ifield in it['fields'].items():
                    of = t['fields'].get(fn)
                    if of is None:
                        bad.add('interface:field-missing')
                        continue
                    if not sub_type(m, of['type'], ifield['type']):
                        bad.add('interface:field-type-not-covariant')
                    for an, ia in ifield['args'].items():
                        oa = of['args'].get(an)
                        if oa is None:
                            bad.add('interface:argument-missing')
                        elif oa['type'] != ia['type']:
                            bad.add('interface:argument-type-differs')
                    for an, oa in of['args'].items():
                        if an not in ifield['args'] and oa['type'][0] == 'nn' and oa['default'] is None:
                            bad.add('interface:extra-required-argument')
                    if of.get('deprecation') is not None and ifield.get('deprecation') is None:
                        bad.add('interface:implementation-deprecated-but-interface-not')
        elif k == 'union':
            if not t['members']:
                bad.add('empty:union-members')
            if len(set(t['members'])) != len(t['members']):
                bad.add('union:duplicate-member')
            for mem in t['members']:
                if kind(m, mem) != 'object':
                    bad.add('union:non-object-member')
        elif k == 'enum':
            if not t['values']:
                bad.add('empty:enum-values')
            for vn in t['values']:
                if reserved(vn) or vn in ('true', 'false', 'null'):
                    bad.add('name:reserved')
        elif k == 'input':
            if not t['fields']:
                bad.add('empty:input-fields')
            for fn, f in t['fields'].items():
                if reserved(fn):
                    bad.add('name:reserved')
                check_input_value(t.get('one_of'), f, f'{name}.{fn}')
                if t.get('one_of'):
                    if f['type'][0] == 'nn':
                        bad.add('oneof:non-null-field')
                    if f['default'] is not None:
                        bad.add('oneof:field-with-default')
    for dn, d in m['directives'].items():
        if reserved(dn):
            bad.add('name:reserved')
        for an, a in d['args'].items():
            if reserved(an):
                bad.add('name:reserved')
            check_input_value(False, a, f'@{dn}({an}:)')
    # --- unbreakable input cycles: chains of non-null, non-list input object fields
    inputs = {n: t for n, t in T.items() if t['kind'] == 'input'}

    def nn_edges(n):
        for fn, f in inputs[n]['fields'].items():
            r = f['type']
            if r[0] == 'nn' and r[1][0] == 'n' and r[1][1] in inputs:
                yield r[1][1]
    state = {}

    def dfs(n):
        state[n] = 1
        for x in nn_edges(n):
            if state.get(x) == 1 or (state.get(x) is None and dfs(x)):
                return True
        state[n] = 2
        return False
    for n in inputs:
        if state.get(n) is None and dfs(n):
            bad.add('cycle:unbreakable-input-reference')
    # --- cycles through default values
    if 'default:invalid' not in bad and default_cycle(m, inputs):
        bad.add('cycle:default-value')
    return sorted(bad)


def default_cycle(m, inputs):
    """Does coercing some input field's default require that very default again?"""
    visiting, done = set(), set()

    def walk_literal(node, ref):
        if isinstance(node, A.NullValueNode):
            return False
        if ref[0] == 'nn':
            return walk_literal(node, ref[1])
        if ref[0] == 'l':
            if isinstance(node, A.ListValueNode):
                return any(walk_literal(v, ref[1]) for v in node.values)
            return walk_literal(node, ref[1])
        if ref[1] not in inputs or not isinstance(node, A.ObjectValueNode):
            return False
        t = inputs[ref[1]]
        given = {f.name.value: f.value for f in node.fields}
        for fn, f in t['fields'].items():
            if fn in given:
                if walk_literal(given[fn], f['type']):
                    return True
            elif f['default'] is not None:
                if visit((ref[1], fn)):
                    return True
        return False

    def visit(key):
        if key in done:
            return False
        if key in visiting:
            return True
        visiting.add(key)
        f = inputs[key[0]]['fields'][key[1]]
        try:
            node = parse_const_value(f['default'])
        except Exception:  # noqa: BLE001
            node = None
        r = node is not None and walk_literal(node, f['type'])
        visiting.discard(key)
        done.add(key)
        return r
    for n, t in inputs.items():
        for fn, f in t['fields'].items():
            if f['default'] is not None and visit((n, fn)):
                return True
    return False
