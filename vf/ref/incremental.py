"""R4: incremental-delivery merge and protocol automaton, written from the response format.

An Assembler is fed the *formatted* initial result and every formatted subsequent payload
(processing pending -> incremental -> completed within a payload).  It builds the assembled
data and records every protocol violation it sees; it knows nothing about the executor.
"""
from __future__ import annotations

import copy

from graphql.language import ast as A


class Assembler:
    def __init__(self, nesting=None):
        self.data = None
        self.errors = []            # pooled formatted errors (initial + incremental + completed)
        self.pending = {}           # id -> {'path', 'label'}
        self.seen_ids = set()
        self.failed = []            # [{'id','path','label','errors'}]
        self.succeeded = []
        self.problems = []          # (mechanism, detail)
        self.finished = False
        self.payloads = 0
        self.nesting = nesting or {}   # label -> set of enclosing defer labels
        self.stream_items = {}      # id -> number of items delivered incrementally
        self.stream_paths = {}      # id -> path of the streamed list
        self.events = []            # compact trace of what was seen
        self.just_announced = []

    def bad(self, mech, **detail):
        self.problems.append((mech, detail))

    # ---- initial
    def initial(self, r):
        self.payloads += 1
        self.data = copy.deepcopy(r.get('data'))
        self.errors += list(r.get('errors') or [])
        if 'hasNext' in r and r['hasNext'] is not True:
            self.bad('has-next:false-on-initial-incremental-result')
        self.announce(r.get('pending') or [])
        self.check_nesting()
        if not r.get('pending'):
            self.bad('initial-incremental-result-without-pending')

    def single(self, r):
        """A plain (non-incremental) result."""
        self.payloads += 1
        self.data = copy.deepcopy(r.get('data'))
        self.errors += list(r.get('errors') or [])
        self.finished = True

    def announce(self, pend):
        for p in pend:
            i = p.get('id')
            self.events.append(('pending', i, tuple(p.get('path', [])), p.get('label')))
            if i in self.seen_ids:
                self.bad('pending:id-announced-twice-or-reused', id=i)
                continue
            self.seen_ids.add(i)
            path = list(p.get('path', []))
            label = p.get('label')
            self.pending[i] = {'path': path, 'label': label}
            self.just_announced.append(i)

    def check_nesting(self):
        """A nested fragment must not be announced while an announced enclosing fragment is still pending.
        Judged at the end of a payload: a parent completed in the same payload is not pending any more."""
        for i in self.just_announced:
            me = self.pending.get(i)
            if me is None or me['label'] is None:
                continue
            for j, other in self.pending.items():
                if j != i and other['label'] is not None and other['label'] in self.nesting.get(me['label'], ()) \
                        and other['path'] == me['path'][:len(other['path'])]:
                    self.bad('pending:nested-announced-while-enclosing-pending', id=i, label=me['label'], enclosing=other['label'])
        self.just_announced = []

    def locate(self, path):
        cur = self.data
        for k in path:
            if isinstance(cur, dict) and k in cur:
                cur = cur[k]
            elif isinstance(cur, list) and isinstance(k, int) and 0 <= k < len(cur):
                cur = cur[k]
            else:
                return _MISSING
        return cur

    # ---- subsequent
    def subsequent(self, r):
        self.payloads += 1
        if self.finished:
            self.bad('payload-after-last')
        self.announce(r.get('pending') or [])
        for inc in r.get('incremental') or []:
            i = inc.get('id')
            self.errors += list(inc.get('errors') or [])
            if i not in self.pending:
                self.bad('incremental:id-not-pending', id=i, was_announced=i in self.seen_ids)
                continue
            base = self.pending[i]['path'] + list(inc.get('subPath') or [])
            target = self.locate(base)
            if 'items' in inc:
                self.events.append(('items', i, len(inc['items'])))
                if not isinstance(target, list):
                    self.bad('incremental:stream-target-not-a-list', id=i, path=base)
                    continue
                if inc.get('subPath'):
                    self.bad('incremental:stream-with-subpath', id=i)
                self.stream_paths.setdefault(i, list(base))
                target.extend(copy.deepcopy(inc['items']))
                self.stream_items[i] = self.stream_items.get(i, 0) + len(inc['items'])
            else:
                self.events.append(('data', i, tuple(inc.get('subPath') or [])))
                if not isinstance(target, dict):
                    self.bad('incremental:defer-target-not-an-object', id=i, path=base,
                             target=('missing' if target is _MISSING else type(target).__name__))
                    continue
                self.merge(target, inc.get('data') or {}, base)
        for c in r.get('completed') or []:
            i = c.get('id')
            self.events.append(('completed', i, bool(c.get('errors'))))
            if i not in self.pending:
                self.bad('completed:id-not-pending', id=i, was_announced=i in self.seen_ids)
                continue
            info = self.pending.pop(i)
            if c.get('errors'):
                self.errors += list(c['errors'])
                self.failed.append({'id': i, **info, 'errors': c['errors']})
            else:
                self.succeeded.append({'id': i, **info})
        self.check_nesting()
        if r.get('hasNext') is False:
            self.finished = True
            if self.pending:
                self.bad('has-next:false-while-ids-still-pending', ids=sorted(self.pending))
        elif r.get('hasNext') is not True:
            self.bad('has-next:missing')

    def merge(self, target, data, path):
        for k, v in data.items():
            if k in target and isinstance(target[k], dict) and isinstance(v, dict):
                self.merge(target[k], v, path + [k])
            elif k in target and isinstance(target[k], list) and isinstance(v, list) and len(target[k]) == len(v):
                for idx, (a, b) in enumerate(zip(target[k], v)):
                    if isinstance(a, dict) and isinstance(b, dict):
                        self.merge(a, b, path + [k, idx])
                    elif a != b:
                        self.bad('incremental:redelivers-different-value', path=path + [k, idx])
            elif k in target and target[k] != v:
                self.bad('incremental:redelivers-different-value', path=path + [k])
            else:
                target[k] = copy.deepcopy(v)

    def end(self):
        """The stream ended (StopAsyncIteration)."""
        if not self.finished:
            self.bad('stream-ended-without-final-payload', still_pending=sorted(self.pending))
        if self.pending:
            self.bad('announced-id-never-completed', ids=sorted(self.pending))


_MISSING = object()


def stream_order_problems(asm, reference_data):
    """'Stream items arrive in list order without gaps or repeats': the list assembled for every stream must be, item by
    item, the reference list (the operation executed with the directives disabled) - never longer, and wherever both
    items carry a scalar under the same key, the same scalar (a repeated or skipped item shows as a shifted one).
    Items may be null or lack keys where errors were reported; that is C04's business, not judged here."""
    out = []

    def ref_at(path):
        cur = reference_data
        for k in path:
            try:
                cur = cur[k]
            except (KeyError, IndexError, TypeError):
                return _MISSING
        return cur
    for sid, path in asm.stream_paths.items():
        got, ref = asm.locate(path), ref_at(path)
        if not isinstance(got, list) or not isinstance(ref, list):
            continue      # the list was nulled on one side (error propagation)
        if len(got) > len(ref):
            out.append(('stream:more-items-than-the-list-has', {'id': sid, 'path': path, 'delivered': len(got), 'list_length': len(ref)}))
            continue
        for idx, (a, b) in enumerate(zip(got, ref)):
            if isinstance(a, dict) and isinstance(b, dict):
                for k, v in a.items():
                    w = b.get(k, _MISSING)
                    if isinstance(v, (str, int, float, bool)) and isinstance(w, (str, int, float, bool)) and (v != w or type(v) is not type(w)):
                        out.append(('stream:item-out-of-place', {'id': sid, 'path': path + [idx], 'key': k, 'delivered': v, 'list_has': w}))
                        break
                else:
                    continue
                break
            elif isinstance(a, (str, int, float, bool)) and isinstance(b, (str, int, float, bool)) and a != b:
                out.append(('stream:item-out-of-place', {'id': sid, 'path': path + [idx], 'delivered': a, 'list_has': b}))
                break
    return out


def defer_label_nesting(doc):
    """{defer label: set of labels of enclosing @defer fragments} from the document structure."""
    frags = {d.name.value: d for d in doc.definitions if isinstance(d, A.FragmentDefinitionNode)}
    nesting = {}

    def label_of(node):
        for d in node.directives or ():
            if d.name.value == 'defer':
                for a in d.arguments or ():
                    if a.name.value == 'label' and isinstance(a.value, A.StringValueNode):
                        return a.value.value
        return None

    def note(lab, enclosing):
        # a label may occur at several places (reused fragments): only what encloses EVERY occurrence counts
        if lab in nesting:
            nesting[lab] &= set(enclosing)
        else:
            nesting[lab] = set(enclosing)

    def walk(ss, enclosing, seen):
        for sel in ss.selections:
            if isinstance(sel, A.FieldNode):
                if sel.selection_set:
                    walk(sel.selection_set, enclosing, seen)
            elif isinstance(sel, A.InlineFragmentNode):
                lab = label_of(sel)
                if lab is not None:
                    note(lab, enclosing)
                walk(sel.selection_set, enclosing | ({lab} if lab else set()), seen)
            else:
                lab = label_of(sel)
                if lab is not None:
                    note(lab, enclosing)
                fr = frags.get(sel.name.value)
                if fr is not None and sel.name.value not in seen:
                    walk(fr.selection_set, enclosing | ({lab} if lab else set()), seen | {sel.name.value})
    for d in doc.definitions:
        if isinstance(d, A.OperationDefinitionNode):
            walk(d.selection_set, set(), set())
    return nesting


# ---------------- comparison with the non-incremental reference ----------------
def unordered_equal(a, b):
    if isinstance(a, dict) and isinstance(b, dict):
        return set(a) == set(b) and all(unordered_equal(a[k], b[k]) for k in a)
    if isinstance(a, list) and isinstance(b, list):
        return len(a) == len(b) and all(unordered_equal(x, y) for x, y in zip(a, b))
    return a == b and type(a) is type(b)


def first_difference(a, b, path=()):
    if isinstance(a, dict) and isinstance(b, dict):
        for k in a:
            if k not in b:
                return f'{list(path)}: key {k!r} only in assembled'
        for k in b:
            if k not in a:
                return f'{list(path)}: key {k!r} missing from assembled'
        for k in a:
            d = first_difference(a[k], b[k], path + (k,))
            if d:
                return d
        return None
    if isinstance(a, list) and isinstance(b, list):
        if len(a) != len(b):
            return f'{list(path)}: list length {len(a)} vs {len(b)}'
        for i, (x, y) in enumerate(zip(a, b)):
            d = first_difference(x, y, path + (i,))
            if d:
                return d
        return None
    if a != b or type(a) is not type(b):
        return f'{list(path)}: {a!r} vs {b!r}'
    return None


class Problem(str):
    """A refines() verdict that carries structured detail (for mechanism classification)."""
    info = None


def defer_owners(ref, data):
    """Which @defer fragments select which response key at which object position.

    ref: a vf.ref.executor.Ref that has run (frags, vars, type_at, op); data: its (non-propagating) result data.
    Returns {(path tuple, key): set of chains}; a chain is a tuple of (label, path tuple of the object the fragment sits on)
    for the active @defer fragments enclosing one selection of that key, outermost first; () = selected outside any @defer.
    A key may stay undelivered only if EVERY chain contains a fragment that was completed with errors."""
    owners = {}
    schema = ref.schema

    def defer_of(node):
        for d in node.directives or ():
            if d.name.value == 'defer':
                if ref.directive_arg(node, 'defer') is False:
                    return None
                lab = None
                for a in d.arguments or ():
                    if a.name.value == 'label' and isinstance(a.value, A.StringValueNode):
                        lab = a.value.value
                return (lab,)
        return None

    def walk_obj(path, sets, value):
        tname = ref.type_at.get(tuple(path))
        obj_type = schema.type_map.get(tname) if tname else None
        if obj_type is None or not isinstance(value, dict):
            return
        grouped = {}
        visited = set()

        def walk(ss, chain):
            for sel in ss.selections:
                if not ref.included(sel):
                    continue
                if isinstance(sel, A.FieldNode):
                    key = sel.alias.value if sel.alias else sel.name.value
                    grouped.setdefault(key, []).append((sel, chain))
                    continue
                d = defer_of(sel)
                inner_chain = chain + ((d[0], tuple(path)),) if d else chain
                if isinstance(sel, A.FragmentSpreadNode):
                    name = sel.name.value
                    if d is None:
                        if name in visited:
                            continue
                        visited.add(name)
                    frag = ref.frags.get(name)
                    if frag is None or not ref.applies(frag.type_condition, obj_type):
                        continue
                    walk(frag.selection_set, inner_chain)
                else:
                    if not ref.applies(sel.type_condition, obj_type):
                        continue
                    walk(sel.selection_set, inner_chain)
        for ss, chain in sets:
            walk(ss, chain)
        for key, fields in grouped.items():
            owners.setdefault((tuple(path), key), set()).update(c for _, c in fields)
            if key not in value:
                continue
            sub = [(f.selection_set, c) for f, c in fields if f.selection_set]
            if sub:
                walk_val(path + [key], sub, value[key])

    def walk_val(path, sets, value):
        if isinstance(value, list):
            for i, x in enumerate(value):
                walk_val(path + [i], sets, x)
        elif isinstance(value, dict):
            walk_obj(path, sets, value)

    if isinstance(data, dict) and getattr(ref, 'op', None) is not None:
        walk_obj([], [(ref.op.selection_set, ())], data)
    return owners


def refines(assembled, reference, error_paths, failed, path=(), owners=None):
    """Is `assembled` the (non-propagating) reference with some subtrees nulled and some deferred fragments /
    stream tails withheld?  Returns None or a description of the first offending position.

    - a null where the reference has a value is allowed only at or above an error path;
    - a key missing from a visible object is allowed only under a pending result that completed with errors
      (its path is a prefix of the object's path);
    - a shorter list is allowed only if a stream at that very path completed with errors.
    """
    p = list(path)
    if assembled is None and reference is not None:
        if any(list(ep[:len(p)]) == p for ep in error_paths if ep is not None) or any(ep is None for ep in error_paths):
            return None
        return f'{p}: null in the assembled data without an error at or below this position'
    if isinstance(assembled, dict) and isinstance(reference, dict):
        for k in assembled:
            if k not in reference:
                return f'{p}: key {k!r} is not in the reference'
        for k in reference:
            if k not in assembled:
                chains = owners.get((tuple(p), k)) if owners is not None else None
                if chains:
                    def failed_one(el):
                        return any(f['label'] == el[0] and tuple(f['path']) == el[1] for f in failed)
                    if all(any(failed_one(el) for el in chain) for chain in chains):
                        continue
                    if () in chains:
                        return f'{p}: key {k!r} missing although it is selected outside any @defer'
                    pr = Problem(f'{p}: key {k!r} missing although a fragment that selects it was not completed with errors '
                                 f'(selected under {sorted(tuple(str(e[0]) for e in c) for c in chains)}, failed: {sorted(str(f["label"]) for f in failed)})')
                    pr.info = {'kind': 'missing-key', 'failed_chains': [c for c in chains if any(failed_one(el) for el in c)],
                               'unfailed_chains': [c for c in chains if not any(failed_one(el) for el in c)]}
                    return pr
                if any(f['path'] == p[:len(f['path'])] for f in failed):
                    continue
                return f'{p}: key {k!r} missing although no enclosing fragment was completed with errors'
        for k in assembled:
            d = refines(assembled[k], reference[k], error_paths, failed, path + (k,), owners)
            if d:
                return d
        return None
    if isinstance(assembled, list) and isinstance(reference, list):
        if len(assembled) > len(reference):
            return f'{p}: list longer than the reference'
        if len(assembled) < len(reference) and not any(f['path'] == p for f in failed):
            return f'{p}: list shorter than the reference ({len(assembled)} vs {len(reference)}) although no stream here was completed with errors'
        for i, (x, y) in enumerate(zip(assembled, reference)):
            d = refines(x, y, error_paths, failed, path + (i,), owners)
            if d:
                return d
        return None
    if assembled != reference or type(assembled) is not type(reference):
        return f'{p}: {assembled!r} vs {reference!r}'
    return None
