"""R5: reference recursive visitor, written from the Visitor docstring.

Children are found by reflection over dataclass fields (every field other than `loc`
holding a Node or a tuple of Nodes) and ordered by source position (document order), so
neither QUERY_DOCUMENT_KEYS nor the library's traversal loop is used.

decide(phase, node, key, parent, path, ancestors) -> IDLE | SKIP | BREAK | REMOVE | ('replace', node)
"""
from __future__ import annotations

import dataclasses

from graphql.language import ast as A

IDLE, SKIP, BREAK, REMOVE = 'idle', 'skip', 'break', 'remove'
Node = A.Node
_GONE = object()


class Broke(Exception):
    pass


def node_fields(node):
    """[(field name, value)] for node-valued fields, in document order."""
    out = []
    for f in dataclasses.fields(node):
        if f.name == 'loc':
            continue
        v = getattr(node, f.name)
        if isinstance(v, Node):
            out.append((f.name, v, v.loc.start if v.loc else None))
        elif isinstance(v, tuple) and v and all(isinstance(i, Node) for i in v):
            out.append((f.name, v, v[0].loc.start if v[0].loc else None))
    if all(s is not None for _, _, s in out):
        out.sort(key=lambda x: x[2])
    return [(n, v) for n, v, _ in out]


def rebuild(node, changes):
    kw = {f.name: getattr(node, f.name) for f in dataclasses.fields(node)}
    kw.update(changes)
    return type(node)(**kw)


def visit(root, decide):
    """Returns (result tree or REMOVE marker, broke?)."""
    try:
        r, _ = _node(root, None, None, [], [], decide)
    except Broke:
        return root, True
    return (REMOVE if r is _GONE else r), False


def _node(node, key, parent, path, ancestors, decide):
    """Returns (result, edited?) - a replacement counts as an edit even if it is the very same object."""
    d = decide('enter', node, key, parent, path, ancestors)
    if d == BREAK:
        raise Broke
    if d == SKIP:
        return node, False
    if d == REMOVE:
        return _GONE, True
    current = node
    edited = False
    if isinstance(d, tuple):          # ('replace', new node): traversed instead of the original
        current = d[1]
        edited = True
    # children
    changes = {}
    anc2 = ancestors + ([parent] if parent is not None else [])
    for fname, value in node_fields(current):
        if isinstance(value, Node):
            r, ch = _node(value, fname, current, path + [fname], anc2, decide)
            if r is _GONE:
                changes[fname] = None
            elif ch:
                changes[fname] = r
        else:
            items = []
            changed = False
            anc3 = anc2 + [current]
            for i, item in enumerate(value):
                r, ch = _node(item, i, value, path + [fname, i], anc3, decide)
                if r is _GONE:
                    changed = True
                    continue
                changed = changed or ch
                items.append(r)
            if changed:
                changes[fname] = tuple(items)
    after = rebuild(current, changes) if changes else current
    edited = edited or bool(changes)
    d2 = decide('leave', after, key, parent, path, ancestors)
    if d2 == BREAK:
        raise Broke
    if d2 == REMOVE:
        return _GONE, True
    if isinstance(d2, tuple):
        return d2[1], True
    return after, edited
