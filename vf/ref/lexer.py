"""R1: reference lexer written from the lexical grammar of the GraphQL specification.

Shares nothing with graphql.language.lexer.  Token = (kind, start, end, value);
comments are included in the list (kind COMMENT).
"""

PUNCT = {'!': 'BANG', '$': 'DOLLAR', '&': 'AMP', '(': 'PAREN_L', ')': 'PAREN_R', ':': 'COLON', '=': 'EQUALS',
         '@': 'AT', '[': 'BRACKET_L', ']': 'BRACKET_R', '{': 'BRACE_L', '|': 'PIPE', '}': 'BRACE_R'}
LETTERS = set('abcdefghijklmnopqrstuvwxyzABCDEFGHIJKLMNOPQRSTUVWXYZ_')
DIGITS = set('0123456789')
ESC = {'"': '"', '\\': '\\', '/': '/', 'b': '\b', 'f': '\f', 'n': '\n', 'r': '\r', 't': '\t'}
HEX = set('0123456789abcdefABCDEF')

class LexError(Exception): pass

def is_scalar(c): return not (0xD800 <= ord(c) <= 0xDFFF)

def source_char_len(s, i):
    """Length of the SourceCharacter at i (1, or 2 for a surrogate pair stored as two code units), or 0."""
    c = s[i]
    if is_scalar(c): return 1
    if 0xD800 <= ord(c) <= 0xDBFF and i + 1 < len(s) and 0xDC00 <= ord(s[i + 1]) <= 0xDFFF: return 2
    return 0

def block_string_value(raw_lines):
    lines = list(raw_lines)
    common = None
    for line in lines[1:]:
        indent = len(line) - len(line.lstrip(' \t'))
        if indent < len(line) and (common is None or indent < common): common = indent
    if common:
        lines = [lines[0]] + [l[common:] for l in lines[1:]]
    while lines and not lines[0].strip(' \t'): lines.pop(0)
    while lines and not lines[-1].strip(' \t'): lines.pop()
    return '\n'.join(lines)

def lex(s):
    """Return list of (kind, start, end, value) incl. comments; raise LexError."""
    out = []; i = 0; n = len(s)
    while i < n:
        c = s[i]
        if c in ' \t,\ufeff\n\r': i += 1; continue
        if c == '#':
            j = i + 1
            while j < n and s[j] not in '\n\r':
                l = source_char_len(s, j)
                if not l: break   # comment ends before an invalid char, which then fails as a token
                j += l
            out.append(('COMMENT', i, j, s[i + 1:j])); i = j; continue
        if c in PUNCT: out.append((PUNCT[c], i, i + 1, None)); i += 1; continue
        if c == '.':
            if s[i:i + 3] == '...': out.append(('SPREAD', i, i + 3, None)); i += 3; continue
            raise LexError(i)
        if c in LETTERS:
            j = i + 1
            while j < n and (s[j] in LETTERS or s[j] in DIGITS): j += 1
            out.append(('NAME', i, j, s[i:j])); i = j; continue
        if c in DIGITS or c == '-':
            j = i
            if s[j] == '-': j += 1
            if j < n and s[j] == '0':
                j += 1
                if j < n and s[j] in DIGITS: raise LexError(j)
            else:
                if j >= n or s[j] not in DIGITS: raise LexError(j)
                while j < n and s[j] in DIGITS: j += 1
            isf = False
            if j < n and s[j] == '.':
                isf = True; j += 1
                if j >= n or s[j] not in DIGITS: raise LexError(j)
                while j < n and s[j] in DIGITS: j += 1
            if j < n and s[j] in 'eE':
                isf = True; j += 1
                if j < n and s[j] in '+-': j += 1
                if j >= n or s[j] not in DIGITS: raise LexError(j)
                while j < n and s[j] in DIGITS: j += 1
            if j < n and (s[j] == '.' or s[j] in LETTERS): raise LexError(j)
            out.append(('FLOAT' if isf else 'INT', i, j, s[i:j])); i = j; continue
        if c == '"':
            if s[i:i + 3] == '"""':
                j = i + 3; lines = []; cur = ''
                while True:
                    if j >= n: raise LexError(j)
                    if s[j:j + 3] == '"""':
                        lines.append(cur); out.append(('BLOCK_STRING', i, j + 3, block_string_value(lines))); i = j + 3; break
                    if s[j:j + 4] == '\\"""': cur += '"""'; j += 4; continue
                    if s[j] == '\r':
                        lines.append(cur); cur = ''; j += 2 if s[j + 1:j + 2] == '\n' else 1; continue
                    if s[j] == '\n': lines.append(cur); cur = ''; j += 1; continue
                    l = source_char_len(s, j)
                    if not l: raise LexError(j)
                    cur += s[j:j + l]; j += l
                continue
            j = i + 1; val = ''
            while True:
                if j >= n or s[j] in '\n\r': raise LexError(j)
                ch = s[j]
                if ch == '"': out.append(('STRING', i, j + 1, val)); i = j + 1; break
                if ch == '\\':
                    e = s[j + 1:j + 2]
                    if e == 'u':
                        if s[j + 2:j + 3] == '{':
                            k = j + 3
                            while k < n and s[k] in HEX: k += 1
                            digits = s[j + 3:k]
                            if not digits or s[k:k + 1] != '}' or len(digits) > 8: raise LexError(j)
                            cp = int(digits, 16)
                            if cp > 0x10FFFF or 0xD800 <= cp <= 0xDFFF: raise LexError(j)
                            val += chr(cp); j = k + 1; continue
                        hx = s[j + 2:j + 6]
                        if len(hx) != 4 or any(x not in HEX for x in hx): raise LexError(j)
                        cp = int(hx, 16)
                        if 0xD800 <= cp <= 0xDBFF:
                            hx2 = s[j + 8:j + 12]
                            if s[j + 6:j + 8] == '\\u' and len(hx2) == 4 and all(x in HEX for x in hx2) and 0xDC00 <= int(hx2, 16) <= 0xDFFF:
                                val += chr(0x10000 + ((cp - 0xD800) << 10) + (int(hx2, 16) - 0xDC00)); j += 12; continue
                            raise LexError(j)
                        if 0xDC00 <= cp <= 0xDFFF: raise LexError(j)
                        val += chr(cp); j += 6; continue
                    if e in ESC and e != '': val += ESC[e]; j += 2; continue
                    raise LexError(j)
                l = source_char_len(s, j)
                if not l: raise LexError(j)
                val += s[j:j + l]; j += l
            continue
        raise LexError(i)
    return out



def lexes(s):
    try:
        lex(s)
    except LexError:
        return False
    return True


def significant(tokens):
    return [t for t in tokens if t[0] != 'COMMENT']


# ---------- R2: line / column by direct scan ----------
def line_col(s, offset):
    """1-based (line, column) of `offset` counting only LF, CR LF and CR as terminators."""
    line = 1; last_end = 0; i = 0
    while i < offset:
        c = s[i]
        if c == '\n':
            line += 1; i += 1; last_end = i
        elif c == '\r':
            if s[i + 1:i + 2] == '\n' and i + 1 < offset:
                i += 2
            else:
                i += 1
            line += 1; last_end = i
        else:
            i += 1
    return line, offset - last_end + 1


def inside_crlf(s, offset):
    return 0 < offset < len(s) and s[offset - 1] == '\r' and s[offset] == '\n'


def split_lines(s):
    """The lines of s per the spec's line terminators."""
    out = []; cur = []; i = 0
    while i < len(s):
        c = s[i]
        if c == '\n' or c == '\r':
            out.append(''.join(cur)); cur = []
            i += 2 if (c == '\r' and s[i + 1:i + 2] == '\n') else 1
        else:
            cur.append(c); i += 1
    out.append(''.join(cur))
    return out
