"""setup_cmd: byte-compile nothing, import everything, sanity-check the trusted pieces."""
import importlib
import json
import os
import pkgutil
import sys

ROOT = os.path.dirname(os.path.dirname(os.path.abspath(__file__)))
sys.path.insert(0, os.environ.get("VERIF_REPO_SRC", "/repo/src"))


def main():
    import vf
    n = 0
    for m in pkgutil.walk_packages(vf.__path__, "vf."):
        if m.name in ("vf.selftest", "vf.run", "vf.worker"):
            continue
        importlib.import_module(m.name)
        n += 1
    from vf.ref import lexer as R1
    assert [t[0] for t in R1.lex('{ a(b: "x") ...F }')] == ['BRACE_L', 'NAME', 'PAREN_L', 'NAME', 'COLON', 'STRING', 'PAREN_R', 'SPREAD', 'NAME', 'BRACE_R']
    assert R1.line_col('a\r\nb\rc\n', 5) == (3, 1)
    man = json.load(open(os.path.join(ROOT, "MANIFEST.json")))
    kf = json.load(open(os.path.join(ROOT, "known_findings.json")))
    for c in man["checks"]:
        importlib.import_module("vf.checks." + c["property_id"].lower())
    try:
        from vf.mon import loop
        loop.selftest()
    except ImportError:
        pass
    print(f"selftest ok: {n} modules, {len(man['checks'])} checks, {len(kf['findings'])} recorded findings")


if __name__ == "__main__":
    main()
