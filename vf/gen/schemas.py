"""Fixed schemas used by several checks (generated schemas come from gen/schema.py)."""
from __future__ import annotations

from graphql import build_schema, validate_schema

RICH_SDL = '''
interface Node { id: ID! }
interface Named implements Node { id: ID! name: String }
scalar Blob
type User implements Named & Node { id: ID! name: String age: Int score: Float! active: Boolean role: Role
  friends(first: Int = 2, filter: Filter): [User] nnFriends: [User!]! best: User nnBest: User! pet: Pet any: SearchResult
  matrix: [[Int!]] tags: [String!]! blob: Blob roles: [Role] node: Node search: [SearchResult!]
  echo(i: Int, f: Float = 1.5, s: String = "d", b: Boolean, id: ID, e: Role = ADMIN, l: [Int!], ll: [[Int]], o: Filter, ni: Int! = 7, le: [Role] = [GUEST, null], pick: Pick): String }
type Dog implements Named & Node { id: ID! name: String barks: Boolean owner: User echo(o: Filter = {req: true, min: 3}): String lives: String }
type Cat implements Node { id: ID! lives: Int mice: [Int] name: Int barks: Boolean! owner: Dog }
union Pet = Dog | Cat
union SearchResult = User | Dog | Cat
enum Role { ADMIN USER GUEST }
input Filter { q: String = "x", min: Int, roles: [Role!] = [USER], nested: Filter, req: Boolean!, ids: [ID], lim: Int! = 10 }
input Pick @oneOf { byId: ID, byName: String, byFilter: Filter }
type Query { me: User node(id: ID!): Node named: [Named] search(term: String!, limit: Int = 3): [SearchResult!] nnMe: User!
  users: [User!] echo(i: Int, o: Filter, l: [Int!], nn: [Int!]! = [1]): String pets: [Pet]
  byPick(p: Pick!, l: [Pick!], d: Pick = {byId: 1}): String
  filt(fs: [Filter!], deep: [[Filter]], one: [Filter!]! = {req: true}): String }
type Mutation { setName(name: String!): User bump(by: Int = 1): Int rename(id: ID!, to: String = "x"): Named echo(i: Int): String }
type Subscription { userEvents(kind: Role = USER): User ticks: Int namedEvents: Named }
'''

_cache = {}


def rich():
    if 'rich' not in _cache:
        s = build_schema(RICH_SDL)
        assert not validate_schema(s)
        _cache['rich'] = s
    return _cache['rich']


def with_incremental(schema):
    """Same schema plus @defer, @stream and @experimental_disableErrorPropagation."""
    from graphql import GraphQLDeferDirective, GraphQLSchema, GraphQLStreamDirective
    extra = [GraphQLDeferDirective, GraphQLStreamDirective]
    try:
        from graphql.type.directives import GraphQLDisableErrorPropagationDirective
        extra.append(GraphQLDisableErrorPropagationDirective)
    except ImportError:
        pass
    kw = schema.to_kwargs()
    names = {d.name for d in kw['directives']}
    kw['directives'] = list(kw['directives']) + [d for d in extra if d.name not in names]
    s = GraphQLSchema(**kw)
    assert not validate_schema(s)
    return s


def rich_inc():
    if 'rich_inc' not in _cache:
        _cache['rich_inc'] = with_incremental(rich())
    return _cache['rich_inc']


def rich_is_type_of(is_type_of_factory):
    """A fresh copy of the rich schema in which every object type has an is_type_of function (made by the factory from
    the type name) - the route the default type resolver takes when values carry no __typename."""
    key = ('rich_is_type_of', id(is_type_of_factory))
    if key not in _cache:
        s = build_schema(RICH_SDL)
        from graphql import is_object_type
        for name, t in s.type_map.items():
            if is_object_type(t) and not name.startswith('__') and name not in ('Query', 'Mutation', 'Subscription'):
                t.is_type_of = is_type_of_factory(name)
        _cache[key] = s
    return _cache[key]


def rich_inc_is_type_of(is_type_of_factory):
    """rich_is_type_of plus the experimental directives (for the incremental checks)."""
    key = ('rich_inc_is_type_of', id(is_type_of_factory))
    if key not in _cache:
        _cache[key] = with_incremental(rich_is_type_of(is_type_of_factory))
        # with_incremental rebuilds the schema from to_kwargs(): the type objects (and their is_type_of) are shared
    return _cache[key]
