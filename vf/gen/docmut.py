"""Doc mutators: near-valid variants of an executable document, made on the AST.

Each mutator applies ONE named edit somewhere in the tree (through the harness's own
rebuild, not the library's visitor); the result is printed with print_ast and re-parsed
by the caller, so the mutant is ordinary source text.
"""
from __future__ import annotations

from graphql.language import ast as A

from ..mon.astutil import rebuild, walk


def N(v):
    return A.NameNode(value=v)


def _pick(rng, tree, cls, pred=None):
    c = [n for n in walk(tree) if isinstance(n, cls) and (pred is None or pred(n))]
    return rng.choice(c) if c else None


def _replace(tree, target_plain_id, new):
    """rebuild() makes new node objects; targets are identified by position (walk index)."""
    raise NotImplementedError


def mutate_doc(rng, tree, vocab):
    """Return (mutant tree, mutator name) or (None, name) when the mutator does not apply."""
    name = rng.choice(MUTATORS)
    idx = {id(n): i for i, n in enumerate(walk(tree))}
    target = {'i': None}
    counter = {'i': -1}

    def choose(cls, pred=None):
        n = _pick(rng, tree, cls, pred)
        if n is None:
            return None
        target['i'] = idx[id(n)]
        return n

    # rebuild visits bottom-up, so indices of walk() (pre-order) are recomputed on the copy:
    # instead identify the target by (class, ordinal among nodes of that class in pre-order).
    def ordinal(n):
        k = 0
        for m in walk(tree):
            if m is n:
                return k
            if type(m) is type(n):
                k += 1
        return None

    def apply(cls, ordn, fn):
        # pre-order ordinal on the rebuilt tree: rebuild bottom-up first (identity copy), then patch by walking
        copy = rebuild(tree, lambda n: None)
        k = 0
        hit = None
        for m in walk(copy):
            if type(m) is cls:
                if k == ordn:
                    hit = m
                    break
                k += 1
        if hit is None:
            return None
        new = fn(hit)
        return rebuild(copy, lambda n: new if n == hit and type(n) is cls and _same_pos(n, hit) else None)

    def _same_pos(a, b):
        return True

    r = rng
    if name == 'rename_field':
        n = choose(A.FieldNode)
        if n is None:
            return None, name
        return apply(A.FieldNode, ordinal(n), lambda h: _with(h, name=N(r.choice(vocab)))), name
    if name == 'collide_alias':
        n = choose(A.FieldNode)
        if n is None:
            return None, name
        keys = [(m.alias or m.name).value for m in walk(tree) if isinstance(m, A.FieldNode)]
        return apply(A.FieldNode, ordinal(n), lambda h: _with(h, alias=N(r.choice(keys)))), name
    if name == 'drop_alias':
        n = choose(A.FieldNode, lambda m: m.alias is not None)
        if n is None:
            return None, name
        return apply(A.FieldNode, ordinal(n), lambda h: _with(h, alias=None)), name
    if name == 'drop_argument':
        n = choose(A.FieldNode, lambda m: m.arguments)
        if n is None:
            return None, name
        return apply(A.FieldNode, ordinal(n), lambda h: _with(h, arguments=tuple(h.arguments[1:]))), name
    if name == 'dup_argument':
        n = choose(A.FieldNode, lambda m: m.arguments)
        if n is None:
            return None, name
        return apply(A.FieldNode, ordinal(n), lambda h: _with(h, arguments=tuple(h.arguments) + (h.arguments[0],))), name
    if name == 'unknown_argument':
        n = choose(A.FieldNode)
        if n is None:
            return None, name
        arg = A.ArgumentNode(name=N(r.choice(vocab)), value=A.IntValueNode(value='1'))
        return apply(A.FieldNode, ordinal(n), lambda h: _with(h, arguments=tuple(h.arguments or ()) + (arg,))), name
    if name == 'swap_value_kind':
        n = choose(A.ArgumentNode)
        if n is None:
            return None, name
        v = r.choice([A.IntValueNode(value='7'), A.StringValueNode(value='s'), A.BooleanValueNode(value=True), A.NullValueNode(),
                      A.EnumValueNode(value=r.choice(vocab)), A.ListValueNode(values=()), A.ObjectValueNode(fields=()),
                      A.FloatValueNode(value='1.5'), A.VariableNode(name=N('v0')), A.VariableNode(name=N('nope'))])
        return apply(A.ArgumentNode, ordinal(n), lambda h: _with(h, value=v)), name
    if name == 'drop_variable_definition':
        n = choose(A.OperationDefinitionNode, lambda m: m.variable_definitions)
        if n is None:
            return None, name
        return apply(A.OperationDefinitionNode, ordinal(n), lambda h: _with(h, variable_definitions=tuple(h.variable_definitions[1:]))), name
    if name == 'dup_variable_definition':
        n = choose(A.OperationDefinitionNode, lambda m: m.variable_definitions)
        if n is None:
            return None, name
        return apply(A.OperationDefinitionNode, ordinal(n),
                     lambda h: _with(h, variable_definitions=tuple(h.variable_definitions) + (h.variable_definitions[0],))), name
    if name == 'change_variable_type':
        n = choose(A.VariableDefinitionNode)
        if n is None:
            return None, name

        def fn(h):
            t = h.type
            k = r.random()
            if isinstance(t, A.NonNullTypeNode) and k < 0.5:
                t = t.type
            elif not isinstance(t, A.NonNullTypeNode) and k < 0.5:
                t = A.NonNullTypeNode(type=t)
            elif k < 0.75:
                t = A.ListTypeNode(type=t)
            else:
                t = A.NamedTypeNode(name=N(r.choice(['Int', 'String', 'Boolean', 'ID', 'Float', 'Filter', 'Role', 'User', 'Nope'])))
            return _with(h, type=t)
        return apply(A.VariableDefinitionNode, ordinal(n), fn), name
    if name == 'change_variable_default':
        n = choose(A.VariableDefinitionNode)
        if n is None:
            return None, name
        v = r.choice([A.IntValueNode(value='7'), A.StringValueNode(value='s'), A.NullValueNode(), A.ListValueNode(values=()), None])
        return apply(A.VariableDefinitionNode, ordinal(n), lambda h: _with(h, default_value=v)), name
    if name == 'rename_variable_use':
        n = choose(A.VariableNode)
        if n is None:
            return None, name
        names = [m.variable.name.value for m in walk(tree) if isinstance(m, A.VariableDefinitionNode)] + ['nope']
        return apply(A.VariableNode, ordinal(n), lambda h: _with(h, name=N(r.choice(names)))), name
    if name == 'fragment_cycle':
        n = choose(A.FragmentDefinitionNode)
        if n is None:
            return None, name
        frs = [m.name.value for m in walk(tree) if isinstance(m, A.FragmentDefinitionNode)]
        spread = A.FragmentSpreadNode(name=N(r.choice(frs)))

        def fn(h):
            ss = h.selection_set
            return _with(h, selection_set=_with(ss, selections=tuple(ss.selections) + (spread,)))
        return apply(A.FragmentDefinitionNode, ordinal(n), fn), name
    if name == 'change_type_condition':
        n = choose((A.InlineFragmentNode, A.FragmentDefinitionNode), lambda m: m.type_condition is not None)
        if n is None:
            return None, name
        tc = A.NamedTypeNode(name=N(r.choice(['User', 'Dog', 'Cat', 'Pet', 'Node', 'Named', 'Query', 'Role', 'Filter', 'Nope', 'SearchResult'])))
        return apply(type(n), ordinal(n), lambda h: _with(h, type_condition=tc)), name
    if name == 'unknown_spread':
        n = choose(A.SelectionSetNode)
        if n is None:
            return None, name
        spread = A.FragmentSpreadNode(name=N(r.choice(['F1', 'F2', 'Nope'])))
        return apply(A.SelectionSetNode, ordinal(n), lambda h: _with(h, selections=tuple(h.selections) + (spread,))), name
    if name == 'add_directive':
        n = choose((A.FieldNode, A.InlineFragmentNode, A.FragmentSpreadNode, A.OperationDefinitionNode))
        if n is None:
            return None, name
        d = r.choice([
            A.DirectiveNode(name=N('skip'), arguments=(A.ArgumentNode(name=N('if'), value=A.BooleanValueNode(value=True)),)),
            A.DirectiveNode(name=N('skip'), arguments=()),
            A.DirectiveNode(name=N('include'), arguments=(A.ArgumentNode(name=N('if'), value=A.IntValueNode(value='1')),)),
            A.DirectiveNode(name=N('nope'), arguments=()),
            A.DirectiveNode(name=N('deprecated'), arguments=()),
            A.DirectiveNode(name=N('defer'), arguments=()),
            A.DirectiveNode(name=N('stream'), arguments=(A.ArgumentNode(name=N('initialCount'), value=A.IntValueNode(value='-1')),)),
        ])
        return apply(type(n), ordinal(n), lambda h: _with(h, directives=tuple(h.directives or ()) + (d,))), name
    if name == 'drop_selection_set':
        n = choose(A.FieldNode, lambda m: m.selection_set is not None)
        if n is None:
            return None, name
        return apply(A.FieldNode, ordinal(n), lambda h: _with(h, selection_set=None)), name
    if name == 'add_selection_set':
        n = choose(A.FieldNode, lambda m: m.selection_set is None)
        if n is None:
            return None, name
        ss = A.SelectionSetNode(selections=(A.FieldNode(name=N(r.choice(vocab))),))
        return apply(A.FieldNode, ordinal(n), lambda h: _with(h, selection_set=ss)), name
    if name == 'reorder_object_fields':
        n = choose(A.ObjectValueNode, lambda m: len(m.fields) > 1)
        if n is None:
            return None, name
        return apply(A.ObjectValueNode, ordinal(n), lambda h: _with(h, fields=tuple(reversed(h.fields)))), name
    if name == 'dup_object_field':
        n = choose(A.ObjectValueNode, lambda m: m.fields)
        if n is None:
            return None, name
        return apply(A.ObjectValueNode, ordinal(n), lambda h: _with(h, fields=tuple(h.fields) + (h.fields[0],))), name
    if name == 'dup_operation':
        n = choose(A.DocumentNode)
        ops = [d for d in tree.definitions if isinstance(d, A.OperationDefinitionNode)]
        if not ops:
            return None, name
        extra = r.choice([ops[0], _with(ops[0], name=None), _with(ops[0], operation=A.OperationType.SUBSCRIPTION)])
        return apply(A.DocumentNode, 0, lambda h: _with(h, definitions=tuple(h.definitions) + (extra,))), name
    if name == 'reorder_definitions':
        # fragments before the operations that use them, operations in another order: validation results (as multisets) and
        # execution do not depend on the order of definitions
        defs = list(tree.definitions)
        if len(defs) < 2:
            return None, name
        k = r.random()
        if k < 0.5:
            defs.sort(key=lambda d: 0 if isinstance(d, A.FragmentDefinitionNode) else 1)
        elif k < 0.8:
            defs.reverse()
        else:
            r.shuffle(defs)
        return apply(A.DocumentNode, 0, lambda h: _with(h, definitions=tuple(defs))), name
    if name == 'ill_typed_directive_argument':
        # @include(if: "x"), @defer(label: 1), @stream(initialCount: "2"): directive arguments are coerced by the rules that
        # collect fields, not only by the rule that checks literals
        n = choose(A.DirectiveNode, lambda m: m.arguments)
        if n is None:
            return None, name
        k = r.randrange(len(n.arguments))
        other = r.choice([A.IntValueNode(value='1'), A.StringValueNode(value='x'), A.BooleanValueNode(value=True), A.NullValueNode(),
                          A.ListValueNode(values=()), A.ObjectValueNode(fields=()), A.EnumValueNode(value='X'), A.FloatValueNode(value='1.5')])
        if type(other) is type(n.arguments[k].value):
            other = A.ObjectValueNode(fields=())
        args = tuple(_with(a, value=other) if i == k else a for i, a in enumerate(n.arguments))
        return apply(A.DirectiveNode, ordinal(n), lambda h: _with(h, arguments=args)), name
    if name == 'same_field_under_two_types':
        # the very same field text under two type conditions: `... on Dog { lives } ... on Cat { lives }`; whether it is a
        # conflict depends on the two definitions (and on whether the parent types can overlap), never on the text
        pairs = getattr(vocab, 'pairs', None)
        n = choose(A.FieldNode, lambda m: m.selection_set is not None)
        if n is None or not pairs:
            return None, name
        t1, t2, fname, leaf = r.choice(pairs)
        sub = None if leaf else A.SelectionSetNode(selections=(A.FieldNode(name=N('__typename')),))
        fld = A.FieldNode(name=N(fname), selection_set=sub)

        def frag(t):
            return A.InlineFragmentNode(type_condition=A.NamedTypeNode(name=N(t)), selection_set=A.SelectionSetNode(selections=(fld,)))
        extra = (frag(t1), frag(t2)) if r.random() < 0.8 else (frag(t1), fld)
        return apply(A.FieldNode, ordinal(n), lambda h: _with(h, selection_set=_with(h.selection_set, selections=tuple(h.selection_set.selections) + extra))), name
    if name == 'dup_fragment':
        frs = [d for d in tree.definitions if isinstance(d, A.FragmentDefinitionNode)]
        if not frs:
            return None, name
        return apply(A.DocumentNode, 0, lambda h: _with(h, definitions=tuple(h.definitions) + (frs[0],))), name
    if name == 'ill_conditioned_fragment_with_variable':
        # a fragment whose type condition does not name an output type (unknown / input / enum), which uses a variable whose
        # declared type does not fit the position, defined BEFORE the operation that spreads it: what a rule concludes about
        # the fragment's variable usages must not depend on which other rules have looked at the operation first
        cands = [d for d in tree.definitions if isinstance(d, A.FragmentDefinitionNode) and any(isinstance(m, A.VariableNode) for m in walk(d))]
        if not cands:
            return None, name
        fr = r.choice(cands)
        var = r.choice([m.name.value for m in walk(fr) if isinstance(m, A.VariableNode)])
        tc = A.NamedTypeNode(name=N(r.choice(['Nope', 'Filter', 'Role', 'Unknown', 'Pick'])))
        nt = A.NamedTypeNode(name=N(r.choice(['Int', 'String', 'Boolean', 'ID', 'Float', 'Filter', 'Role'])))
        if r.random() < 0.3:
            nt = A.ListTypeNode(type=nt)

        def fn(n):
            if isinstance(n, A.FragmentDefinitionNode) and n.name.value == fr.name.value:
                return _with(n, type_condition=tc)
            if isinstance(n, A.VariableDefinitionNode) and n.variable.name.value == var and r.random() < 0.8:
                return _with(n, type=nt, default_value=None)
            if isinstance(n, A.DocumentNode):
                defs = sorted(n.definitions, key=lambda d: 0 if isinstance(d, A.FragmentDefinitionNode) else 1)
                return _with(n, definitions=tuple(defs))
            return None
        return rebuild(tree, fn), name
    return None, name


MUTATORS = ['ill_conditioned_fragment_with_variable', 'ill_conditioned_fragment_with_variable', 'rename_field', 'collide_alias', 'drop_alias', 'drop_argument', 'dup_argument', 'unknown_argument', 'swap_value_kind',
            'drop_variable_definition', 'dup_variable_definition', 'change_variable_type', 'change_variable_default',
            'rename_variable_use', 'fragment_cycle', 'change_type_condition', 'unknown_spread', 'add_directive',
            'drop_selection_set', 'add_selection_set', 'reorder_object_fields', 'dup_object_field', 'dup_operation', 'dup_fragment',
            'same_field_under_two_types', 'ill_typed_directive_argument', 'ill_typed_directive_argument', 'reorder_definitions', 'reorder_definitions']


def _with(node, **changes):
    import dataclasses
    kw = {f.name: getattr(node, f.name) for f in dataclasses.fields(node)}
    kw.update(changes)
    return type(node)(**kw)


def vocabulary(schema):
    v = set()
    for name, t in schema.type_map.items():
        if name.startswith('__'):
            continue
        v.add(name)
        for attr in ('fields', 'values'):
            try:
                m = getattr(t, attr)
            except Exception:  # noqa: BLE001
                continue
            if isinstance(m, dict):
                v.update(m)
                for f in m.values():
                    v.update(getattr(f, 'args', {}) or {})
    out = Vocabulary(sorted(v))
    # (type, other type, field name, is-leaf) for fields two composite types define under the same name without arguments
    from graphql import get_named_type, is_interface_type, is_leaf_type, is_object_type
    comp = [(n, t) for n, t in schema.type_map.items() if not n.startswith('__') and (is_object_type(t) or is_interface_type(t))]
    for i, (n1, t1) in enumerate(comp):
        for n2, t2 in comp[i + 1:]:
            for fname, f1 in t1.fields.items():
                f2 = t2.fields.get(fname)
                if f2 is not None and not any(a.default is None and str(a.type).endswith('!') for a in list(f1.args.values()) + list(f2.args.values())):
                    l1, l2 = is_leaf_type(get_named_type(f1.type)), is_leaf_type(get_named_type(f2.type))
                    if l1 == l2:
                        out.pairs.append((n1, n2, fname, l1))
    return out


class Vocabulary(list):
    def __init__(self, names):
        super().__init__(names)
        self.pairs = []


def add_descriptions(tree):
    """Descriptions on every operation (non-shorthand), fragment and variable definition."""
    d = A.StringValueNode(value='described', block=False)

    def fn(n):
        if isinstance(n, (A.FragmentDefinitionNode, A.VariableDefinitionNode)):
            return _with(n, description=d)
        if isinstance(n, A.OperationDefinitionNode) and (n.name is not None or n.variable_definitions or n.directives
                                                        or n.operation != A.OperationType.QUERY):
            return _with(n, description=d)
        return None
    return rebuild(tree, fn)
