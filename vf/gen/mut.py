"""G-mut: source-text mutators (near-valid and hostile variants of a source)."""
from __future__ import annotations

from .src import HOSTILE

LONE = ['\ud800', '\udbff', '\udc00', '\udfff', '\ud83d', '\ude00']
TAILS = ['"\\', '"\\u', '"\\u1', '"\\u12', '"\\u123', '"\\u{', '"\\u{1', '"\\u{10FFFF', '"\\uD83D', '"\\uD83D\\',
         '"\\uD83D\\u', '"\\uD83D\\uDE', '"\\ud800\\u1', '"""', '"""\\', '"""\\"', '"""\\""', '"', '"a', '#', '.', '..',
         '-', '1.', '1e', '1e+', '0x', '$', '@', '...', '&', '|', '=', '\ufeff', '"\\x', '"\\u{110000}', '"\\u{}',
         '"\\u{000000001}', '"\\uDEAD"', '"\\uD800\\uD800"', '1a', '0_1', '.5', '01', '--1', '1..2', '1.e1']
CHARS = HOSTILE + LONE + list('{}()[]:!$@&|=.#"\\-019eEaz_')


def mutate(rng, s, lone=True):
    """Return one mutated variant of s."""
    chars = CHARS if lone else [c for c in CHARS if c not in LONE]
    k = rng.random()
    n = len(s)
    if k < 0.2:
        return s[:rng.randint(0, n)]
    if k < 0.3:
        return s[:rng.randint(0, n)] + rng.choice(TAILS)
    if k < 0.45 and n:
        i = rng.randrange(n)
        return s[:i] + s[i + 1:]
    if k < 0.65:
        i = rng.randint(0, n)
        return s[:i] + rng.choice(chars) + s[i:]
    if k < 0.8 and n:
        i = rng.randrange(n)
        return s[:i] + rng.choice(chars) + s[i + 1:]
    if k < 0.9 and n:
        i = rng.randrange(n)
        j = min(n, i + rng.randint(1, 6))
        return s[:i] + s[i:j] * 2 + s[j:]
    if n:
        i = rng.randrange(n)
        j = min(n, i + rng.randint(1, 6))
        a = rng.randint(0, n)
        piece = s[i:j]
        rest = s[:i] + s[j:]
        a = min(a, len(rest))
        return rest[:a] + piece + rest[a:]
    return rng.choice(TAILS)


def nested(kind, depth, leaf=None):
    """A source nesting one bracket kind `depth` levels deep."""
    if kind == 'selection':
        return '{ a ' * depth + (leaf or '') + '}' * depth
    if kind == 'inline':
        return '{ ' + '... { ' * (depth - 1) + 'a' + ' }' * depth
    if kind == 'list':
        return '{ f(a: ' + '[' * depth + (leaf or '1') + ']' * depth + ') }'
    if kind == 'object':
        return '{ f(a: ' + '{k: ' * depth + (leaf or '1') + '}' * depth + ') }'
    if kind == 'listtype':
        return 'query($v: ' + '[' * depth + 'Int' + ']' * depth + ') { a }'
    if kind == 'listtype_sdl':
        return 'type Query { a: ' + '[' * depth + 'Int' + ']' * depth + ' }'
    if kind == 'value_list':
        return '[' * depth + ']' * depth
    if kind == 'value_object':
        return '{a: ' * depth + '1' + '}' * depth
    if kind == 'type_list':
        return '[' * depth + 'T' + ']' * depth
    raise ValueError(kind)


HEX4 = ['0000', '0041', 'D7FF', 'd800', 'D83D', 'DBFF', 'DC00', 'DE00', 'DFFF', 'E000', 'FFFF', '12', '', 'G000', '00g0', '+123', ' 041']
HEXV = ['0', '41', 'D7FF', 'D800', 'DFFF', 'E000', '10FFFF', '110000', '000000041', '', 'FFFFFFFF', 'g', '1F600', ' 41']


def escape_soup(rng):
    """A quoted or block string assembled from well- and ill-formed escape sequences."""
    out = [rng.choice(['"', '"', '"""'])]
    for _ in range(rng.randint(1, 4)):
        k = rng.random()
        if k < 0.35:
            out.append('\\u' + rng.choice(HEX4))
        elif k < 0.55:
            out.append('\\u' + rng.choice(HEX4) + '\\u' + rng.choice(HEX4))
        elif k < 0.75:
            out.append('\\u{' + rng.choice(HEXV) + rng.choice(['}', '}', '', ' }']))
        elif k < 0.85:
            out.append('\\' + rng.choice(list('nrtbf/"\\xU0 ') + ['']))
        else:
            out.append(rng.choice(['a', ' ', '\n', LONE[0], LONE[3], HOSTILE[rng.randrange(len(HOSTILE))]]))
    out.append(rng.choice([out[0], out[0], out[0], '', '"']))
    return ''.join(out)
