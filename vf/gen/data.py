"""G-data: the backing data graph as a pure function of (seed, response path, type).

Leaves are unique per position (strings encode the response path, list items carry
their index) so every value in a response identifies the resolver call that made it.
A deterministic fault map (hash of the path) injects faults.
"""
from __future__ import annotations

import hashlib
import json

from graphql import (get_named_type, is_abstract_type, is_enum_type, is_leaf_type, is_list_type,
                     is_non_null_type, is_object_type)


class Injected(Exception):
    """The exception class harness resolvers raise on purpose."""


def h(*parts):
    return int.from_bytes(hashlib.blake2b(repr(parts).encode(), digest_size=6).digest(), 'big')


TOP_FAULTS = ('null', 'raise', 'return_exc', 'shape', 'iter_raise')
ITEM_FAULTS = ('null', 'return_exc', 'shape')


class FailingList:
    """A list source that yields `items` and then raises `exc` (instead of ending)."""

    def __init__(self, items, exc):
        self.items, self.exc = list(items), exc

    def __iter__(self):
        yield from self.items
        raise self.exc

    def __repr__(self):
        return f'FailingList({self.items!r}, {self.exc!r})'


class BadLeaf:
    """A value no built-in scalar can serialise... but it has __str__, so String/ID would accept it: use a dict instead."""


BAD_LEAF = {'bad': 'leaf'}


def make_value(schema, seed, fault_rate=0.0, kinds=TOP_FAULTS):
    """Return value_fn(path, parent_type_name, field_name, args, return_type) -> raw resolver result (may raise)."""

    def gen(pk, t, x, top):
        f = (x % 1000) / 1000.0
        if f < fault_rate:
            pool = [k for k in (TOP_FAULTS if top else ITEM_FAULTS) if k in kinds]
            if pool:
                kind = pool[(x >> 10) % len(pool)]
                if kind == 'null':
                    return None
                if kind == 'raise':
                    raise Injected(f'raise@{list(pk)}')
                if kind == 'return_exc':
                    return Injected(f'returned@{list(pk)}')
                if kind == 'iter_raise':
                    nt = t.of_type if is_non_null_type(t) else t
                    if not is_list_type(nt):
                        return None
                    n = (x >> 20) % 4
                    items = [gen(pk + (i,), nt.of_type, h(seed, pk, i, 'item'), False) for i in range(n)]
                    return FailingList(items, Injected(f'source-raise@{list(pk)}'))
                # shape fault: depends on the expected type
                nt = t.of_type if is_non_null_type(t) else t
                if is_list_type(nt):
                    return 7                     # not iterable
                if is_leaf_type(nt):
                    return BAD_LEAF              # no built-in scalar or enum serialises a dict
                if is_abstract_type(nt):
                    which = (x >> 14) % 3
                    if which == 0:
                        return {'__typename': 'NoSuchType', '__pk': pk}
                    if which == 1:
                        others = [n for n, ty in schema.type_map.items() if is_object_type(ty) and not n.startswith('__')
                                  and not schema.is_sub_type(nt, ty)]
                        return {'__typename': others[(x >> 16) % len(others)] if others else 'Int', '__pk': pk}
                    return {'__pk': pk}          # no __typename at all
                return None                      # object type: nothing shape-wrong to offer but null
        if is_non_null_type(t):
            t = t.of_type
        if is_list_type(t):
            n = (x >> 20) % 4
            return [gen(pk + (i,), t.of_type, h(seed, pk, i, 'item'), False) for i in range(n)]
        if is_leaf_type(t):
            name = t.name
            if name == 'Int':
                k = (x >> 8) % 100
                return (-2 ** 31, 2 ** 31 - 1, -1, -2 ** 31 + 1)[k - 96] if k >= 96 else k      # 4%: the edges of the domain
            if name == 'Float':
                k = (x >> 8) % 100
                return (-2 ** 31, 2 ** 53, 1e308, -1.5e-300)[k - 96] if k >= 96 else k / 4
            if name == 'Boolean':
                return bool((x >> 8) & 1)
            if name == 'ID':
                return 'id:' + '/'.join(map(str, pk))
            if name == 'String':
                return 's:' + '/'.join(map(str, pk))
            if is_enum_type(t):
                names = list(t.values)
                return t.values[names[(x >> 8) % len(names)]].value
            return 'custom:' + '/'.join(map(str, pk))     # custom scalar: pass-through
        if is_abstract_type(t):
            poss = schema.get_possible_types(t)
            if not poss:
                return None
            obj = poss[(x >> 12) % len(poss)]
            return {'__typename': obj.name, '__pk': pk}
        return {'__typename': t.name, '__pk': pk}

    def value(path, parent_type_name, field_name, args, return_type):
        pk = tuple(path)
        if field_name.startswith('echo'):
            named = get_named_type(return_type)
            if named.name == 'String':
                return 'echo:' + json.dumps(args, sort_keys=True, default=repr)
        return gen(pk, return_type, h(seed, pk, field_name), True)

    return value


def make_resolver(value_fn, calls=None):
    """A field_resolver for the library that serves value_fn and logs (path, kwargs)."""
    def resolver(_source, info, **args):
        path = info.path.as_list()
        if calls is not None:
            calls.append((tuple(path), args))
        v = value_fn(path, info.parent_type.name, info.field_name, args, info.return_type)
        return iter(v) if isinstance(v, FailingList) else v
    return resolver
