"""G-src: grammar-directed generator of GraphQL *source text* over the whole grammar.

A document is generated as a list of lexemes (token texts) and rendered with an
independent layout generator (whitespace, commas, BOM, comments, LF/CR/CRLF).
String contents come from a hostile alphabet.  Deterministic for a given rng.
"""
from __future__ import annotations

HOSTILE = [
    '\n', '\r', '\t', ' ', '"', '\\', '/', 'a', 'b', 'Z', '0', '#', ',', '{', '$',
    '\x00', '\x07', '\x0b', '\x0c', '\x0e', '\x1c', '\x1d', '\x1e', '\x7f', '\x85', '\xa0',
    '\u2028', '\u2029', '\ufeff', '\ud7ff', '\ue000', '\uffff', '\U00010000', '\U0001f600',
    '\U0010ffff', '\u00e9', '\u0663', '\u200b', '\r\n', '  ', '"""', '\\"""', '\\n', '\\u',
]
PLAIN = list('abcxyz XY01_-.:;()[]')
KEYWORDS = ['query', 'mutation', 'subscription', 'fragment', 'on', 'true', 'false', 'null', 'type',
            'input', 'enum', 'union', 'interface', 'scalar', 'schema', 'extend', 'directive',
            'implements', 'repeatable']
NAMES = ['a', 'b', 'c', 'f', 'id', 'name', 'x1', '_y', 'User', 'Query', 'T', 'Foo_Bar', 'e', 'E1', 'ab_9', 'Z']
DIR_LOCS = ['QUERY', 'MUTATION', 'SUBSCRIPTION', 'FIELD', 'FRAGMENT_DEFINITION', 'FRAGMENT_SPREAD',
            'INLINE_FRAGMENT', 'VARIABLE_DEFINITION', 'SCHEMA', 'SCALAR', 'OBJECT', 'FIELD_DEFINITION',
            'ARGUMENT_DEFINITION', 'INTERFACE', 'UNION', 'ENUM', 'ENUM_VALUE', 'INPUT_OBJECT',
            'INPUT_FIELD_DEFINITION', 'FRAGMENT_VARIABLE_DEFINITION', 'DIRECTIVE_DEFINITION']
SIMPLE_ESC = {'"': '\\"', '\\': '\\\\', '\b': '\\b', '\f': '\\f', '\n': '\\n', '\r': '\\r', '\t': '\\t', '/': '\\/'}


def string_value(rng, maxlen=8, hostile=0.5):
    n = rng.choice([0, 1, 1, 2, 3, 5, maxlen])
    out = []
    for _ in range(n):
        out.append(rng.choice(HOSTILE) if rng.random() < hostile else rng.choice(PLAIN))
    return ''.join(out)


def quote_string(rng, value):
    """Encode any scalar-value string as a quoted-string lexeme with random escape forms."""
    out = ['"']
    for ch in value:
        cp = ord(ch)
        must = ch in '"\\\n\r'
        k = rng.random()
        if not must and k < 0.8:
            out.append(ch)
        elif ch in SIMPLE_ESC and (k < 0.9 or must and k < 0.95) and not (ch == '/' and k < 0.5):
            out.append(SIMPLE_ESC[ch])
        elif cp > 0xFFFF:
            if rng.random() < 0.5:
                out.append('\\u{%x}' % cp)
            else:
                c = cp - 0x10000
                out.append('\\u%04X\\u%04x' % (0xD800 + (c >> 10), 0xDC00 + (c & 0x3FF)))
        elif rng.random() < 0.5:
            out.append('\\u%04x' % cp)
        else:
            out.append('\\u{%s%X}' % ('0' * rng.randint(0, 2), cp))
    out.append('"')
    return ''.join(out)


def block_string(rng, maxlines=4):
    """A block-string lexeme with arbitrary raw content (its value is whatever the spec says)."""
    pieces = []
    for _ in range(rng.randint(0, maxlines)):
        indent = rng.choice(['', '', ' ', '  ', '\t', '    '])
        body = ''.join(rng.choice(HOSTILE) if rng.random() < 0.3 else rng.choice(PLAIN)
                       for _ in range(rng.choice([0, 0, 1, 3, 6])))
        pieces.append(indent + body)
        pieces.append(rng.choice(['\n', '\n', '\r\n', '\r', '\n\n']))
    if pieces and rng.random() < 0.5:
        pieces.pop()
    raw = ''.join(pieces)
    # make the raw text a legal block-string body
    raw = raw.replace('\\"""', '\0TQ\0').replace('"""', '\\"""').replace('\0TQ\0', '\\"""')
    while '""""' in raw or raw.endswith('"') or raw.endswith('\\'):
        raw = raw.replace('""""', '"" ""')
        if raw.endswith('"') or raw.endswith('\\'):
            raw += ' '
    return '"""' + raw + '"""'


class SrcGen:
    def __init__(self, rng, frag_args=False, dir_on_dir=False, hostile=0.4, max_depth=3, keywords=0.1, names=None):
        self.r = rng
        self.frag_args = frag_args
        self.dir_on_dir = dir_on_dir
        self.hostile = hostile
        self.max_depth = max_depth
        self.kw = keywords
        self.names = names or NAMES
        self.out = []

    # ---- lexeme helpers
    def t(self, *toks):
        self.out.extend(toks)

    def name(self, exclude=()):
        r = self.r
        for _ in range(10):
            n = r.choice(KEYWORDS) if r.random() < self.kw else r.choice(self.names)
            if n not in exclude:
                return n
        return 'n0'

    def string(self, block_ok=True):
        r = self.r
        if block_ok and r.random() < 0.35:
            return block_string(r)
        return quote_string(r, string_value(r, hostile=self.hostile))

    def opt(self, p=0.5):
        return self.r.random() < p

    def many(self, lo, hi):
        return range(self.r.randint(lo, hi))

    # ---- values
    def value(self, const, depth=0):
        r = self.r
        k = r.random()
        if k < 0.12 and not const:
            self.t('$', self.name())
        elif k < 0.27:
            self.t(r.choice(['0', '-0', '1', '-5', '42', '2147483647', '123456789012345678901234567890', '-9']))
        elif k < 0.40:
            self.t(r.choice(['0.0', '-1.5', '1e3', '1E-3', '0.1e+10', '-0.0e0', '6.02e23', '1.7976931348623157e309', '12.50']))
        elif k < 0.55:
            self.t(self.string())
        elif k < 0.65:
            self.t(r.choice(['true', 'false', 'null']))
        elif k < 0.75:
            self.t(self.name(exclude=('true', 'false', 'null')))
        elif k < 0.88 and depth < self.max_depth:
            self.t('[')
            for _ in self.many(0, 3):
                self.value(const, depth + 1)
            self.t(']')
        elif depth < self.max_depth:
            self.t('{')
            for _ in self.many(0, 3):
                self.t(self.name(), ':')
                self.value(const, depth + 1)
            self.t('}')
        else:
            self.t('7')

    def type_ref(self, depth=0):
        r = self.r
        k = r.random()
        if k < 0.3 and depth < 4:
            self.t('[')
            self.type_ref(depth + 1)
            self.t(']')
        else:
            self.t(self.name())
        if r.random() < 0.35:
            self.t('!')

    def arguments(self, const):
        if self.opt(0.4):
            self.t('(')
            for _ in self.many(1, 3):
                self.t(self.name(), ':')
                self.value(const)
            self.t(')')

    def directives(self, const, p=0.25):
        while self.opt(p):
            self.t('@', self.name())
            self.arguments(const)

    def description(self, p=0.3):
        if self.opt(p):
            self.t(self.string())

    # ---- executable
    def selection_set(self, depth=0):
        self.t('{')
        for _ in self.many(1, 4 if depth < 2 else 2):
            self.selection(depth)
        self.t('}')

    def selection(self, depth):
        r = self.r
        k = r.random()
        if k < 0.65 or depth >= self.max_depth:
            if self.opt(0.25):
                self.t(self.name(), ':')
            self.t(self.name())
            self.arguments(False)
            self.directives(False)
            if self.opt(0.35) and depth < self.max_depth:
                self.selection_set(depth + 1)
        elif k < 0.82:
            self.t('...', self.name(exclude=('on',)))
            if self.frag_args:
                self.arguments(False)
            self.directives(False)
        else:
            self.t('...')
            if self.opt(0.6):
                self.t('on', self.name())
            self.directives(False)
            self.selection_set(depth + 1)

    def variable_definitions(self, p=0.4):
        if self.opt(p):
            self.t('(')
            for _ in self.many(1, 3):
                self.description(0.15)
                self.t('$', self.name(), ':')
                self.type_ref()
                if self.opt(0.4):
                    self.t('=')
                    self.value(True)
                self.directives(True, 0.15)
            self.t(')')

    def operation(self):
        r = self.r
        if self.opt(0.3):
            self.selection_set()
            return
        self.description(0.15)
        self.t(r.choice(['query', 'mutation', 'subscription']))
        if self.opt(0.6):
            self.t(self.name())
        self.variable_definitions()
        self.directives(False)
        self.selection_set()

    def fragment_definition(self):
        self.description(0.15)
        self.t('fragment', self.name(exclude=('on',)))
        if self.frag_args:
            self.variable_definitions(0.5)
        self.t('on', self.name())
        self.directives(False)
        self.selection_set()

    # ---- type system
    def input_value_def(self):
        self.description(0.2)
        self.t(self.name(), ':')
        self.type_ref()
        if self.opt(0.35):
            self.t('=')
            self.value(True)
        self.directives(True, 0.15)

    def argument_defs(self):
        if self.opt(0.35):
            self.t('(')
            for _ in self.many(1, 3):
                self.input_value_def()
            self.t(')')

    def field_defs(self, p=0.85):
        if self.opt(p):
            self.t('{')
            for _ in self.many(1, 3):
                self.description(0.2)
                self.t(self.name())
                self.argument_defs()
                self.t(':')
                self.type_ref()
                self.directives(True, 0.15)
            self.t('}')
            return True
        return False

    def implements(self, p=0.35):
        if self.opt(p):
            self.t('implements')
            if self.opt(0.2):
                self.t('&')
            self.t(self.name())
            while self.opt(0.4):
                self.t('&', self.name())
            return True
        return False

    def type_definition(self, ext=False):
        r = self.r
        kind = r.choice(['scalar', 'type', 'interface', 'union', 'enum', 'input', 'schema', 'directive'])
        if ext and kind == 'directive' and not self.dir_on_dir:
            kind = 'scalar'  # directive extensions exist only in the experimental syntax
        if ext:
            self.t('extend')
        else:
            self.description(0.35)
        start = len(self.out)
        if kind == 'schema':
            self.t('schema')
            self.directives(True, 0.3)
            if self.opt(0.8) or not ext or len(self.out) == start + 1:
                self.t('{')
                for _ in self.many(1, 3):
                    if not ext:
                        pass
                    self.t(r.choice(['query', 'mutation', 'subscription']), ':', self.name())
                self.t('}')
        elif kind == 'scalar':
            self.t('scalar', self.name())
            n = len(self.out)
            self.directives(True, 0.3)
            if ext and len(self.out) == n:
                self.t('@', self.name())
        elif kind in ('type', 'interface'):
            self.t(kind, self.name())
            a = self.implements()
            n = len(self.out)
            self.directives(True, 0.25)
            b = len(self.out) > n
            c = self.field_defs(0.85)
            if ext and not (a or b or c):
                self.t('@', self.name())
        elif kind == 'union':
            self.t('union', self.name())
            n = len(self.out)
            self.directives(True, 0.25)
            b = len(self.out) > n
            if self.opt(0.8) or (ext and not b):
                self.t('=')
                if self.opt(0.2):
                    self.t('|')
                self.t(self.name())
                while self.opt(0.5):
                    self.t('|', self.name())
        elif kind == 'enum':
            self.t('enum', self.name())
            n = len(self.out)
            self.directives(True, 0.25)
            b = len(self.out) > n
            if self.opt(0.85) or (ext and not b):
                self.t('{')
                for _ in self.many(1, 4):
                    self.description(0.2)
                    self.t(self.name(exclude=('true', 'false', 'null')))
                    self.directives(True, 0.15)
                self.t('}')
        elif kind == 'input':
            self.t('input', self.name())
            n = len(self.out)
            self.directives(True, 0.25)
            b = len(self.out) > n
            if self.opt(0.85) or (ext and not b):
                self.t('{')
                for _ in self.many(1, 3):
                    self.input_value_def()
                self.t('}')
        else:  # directive
            self.t('directive', '@', self.name())
            if ext:
                self.t('@', self.name())
                self.arguments(True)
                self.directives(True, 0.3)
                return
            self.argument_defs()
            if self.dir_on_dir:
                self.directives(True, 0.3)
            if self.opt(0.3):
                self.t('repeatable')
            self.t('on')
            if self.opt(0.2):
                self.t('|')
            self.t(r.choice(DIR_LOCS))
            while self.opt(0.4):
                self.t('|', r.choice(DIR_LOCS))

    def definition(self, kinds):
        k = self.r.choice(kinds)
        if k == 'op':
            self.operation()
        elif k == 'frag':
            self.fragment_definition()
        elif k == 'type':
            self.type_definition(False)
        else:
            self.type_definition(True)

    def document(self, flavour=None):
        r = self.r
        flavour = flavour or r.choice(['exec', 'exec', 'sdl', 'mixed'])
        kinds = {'exec': ['op', 'op', 'frag'], 'sdl': ['type', 'type', 'type', 'ext'],
                 'mixed': ['op', 'frag', 'type', 'ext']}[flavour]
        for _ in self.many(1, 4):
            self.definition(kinds)
        return self.out

    def schema_coordinate(self):
        r = self.r
        k = r.random()
        if k < 0.2:
            self.t(self.name())
        elif k < 0.4:
            self.t(self.name(), '.', self.name())
        elif k < 0.6:
            self.t(self.name(), '.', self.name(), '(', self.name(), ':', ')')
        elif k < 0.8:
            self.t('@', self.name())
        else:
            self.t('@', self.name(), '(', self.name(), ':', ')')
        return self.out


# ---------- layout ----------
WORD = set('abcdefghijklmnopqrstuvwxyzABCDEFGHIJKLMNOPQRSTUVWXYZ_0123456789')


def needs_sep(a, b):
    """Must something ignored stand between lexemes a and b so that they stay two tokens?"""
    la, fb = a[-1], b[0]
    if (la in WORD or la == '.') and (fb in WORD or fb == '.'):
        return True
    if la == '"' and fb == '"':
        return True
    return False


def comment(rng):
    body = ''.join(rng.choice(HOSTILE) if rng.random() < 0.3 else rng.choice(PLAIN) for _ in range(rng.randint(0, 6)))
    body = body.replace('\n', ' ').replace('\r', ' ')
    return '#' + body + rng.choice(['\n', '\r', '\r\n'])


def ignored(rng, rich=True):
    k = rng.random()
    if not rich:
        return ' ' if k < 0.9 else '\n'
    if k < 0.45:
        return ' '
    if k < 0.6:
        return rng.choice(['\n', '\r\n', '\r', '\n  ', '\r\n\t'])
    if k < 0.7:
        return rng.choice([',', ', ', ' ,', '\t', '\ufeff', '  '])
    if k < 0.8:
        return comment(rng)
    if k < 0.9:
        return ''.join(ignored(rng) for _ in range(rng.randint(2, 4)))
    return ''


def render(rng, toks, style='rich', offsets=None):
    """Join lexemes with generated ignored material.  style: rich | plain | minimal.

    If `offsets` is a list, the character offset of every lexeme is appended to it.
    """
    out = []
    if style == 'rich' and rng.random() < 0.15:
        out.append(rng.choice(['\ufeff', '\n', ' ', comment(rng)]))
    for i, tok in enumerate(toks):
        if i:
            if style == 'minimal':
                gap = ''
            else:
                gap = ignored(rng, rich=(style == 'rich'))
            if not gap and needs_sep(toks[i - 1], tok):
                gap = ' '
            out.append(gap)
        if offsets is not None:
            offsets.append(sum(len(x) for x in out))
        out.append(tok)
    if style == 'rich' and rng.random() < 0.2:
        out.append(rng.choice(['\n', ' ', '#end', ',', '\r']))
    return ''.join(out)


def gen_source(rng, what='document', style=None, **opts):
    """Return (text, parse-kind, flags) for a freshly generated source."""
    g = SrcGen(rng, **opts)
    if what == 'document':
        g.document()
    elif what == 'exec':
        g.document('exec')
    elif what == 'sdl':
        g.document('sdl')
    elif what == 'value':
        g.value(False)
    elif what == 'const_value':
        g.value(True)
    elif what == 'type':
        g.type_ref()
    elif what == 'coordinate':
        g.schema_coordinate()
    style = style or rng.choice(['rich', 'rich', 'plain', 'minimal'])
    if what == 'coordinate':
        # the schema coordinate grammar has no ignored tokens at all
        return ''.join(g.out)
    return render(rng, g.out, style)
