"""G-doc: type-directed generator of executable documents for a given schema.

Aims at validity by construction: a response key is reused only for the same field
with identical arguments and type (otherwise a fresh alias), fragments only spread
fragments that are already complete (no cycles), non-null positions never get null,
every variable and fragment that is defined is used.
"""
from __future__ import annotations

import json

from graphql import (get_named_type, is_abstract_type, is_enum_type, is_input_object_type, is_interface_type,
                     is_leaf_type, is_list_type, is_non_null_type, is_object_type, is_union_type)


class EnumLit:
    def __init__(self, name):
        self.name = name

    def __repr__(self):
        return self.name


class DocGen:
    def __init__(self, schema, rng, max_depth=4, ops=('query', 'query', 'query', 'mutation'), p_defer=0.0, p_stream=0.0,
                 p_var=0.3, p_dir=0.3, p_null=0.12, subscription_single_root=True, p_boundary=0.0):
        self.s = schema
        self.r = rng
        self.max_depth = max_depth
        self.ops = ops
        self.p_defer, self.p_stream = p_defer, p_stream
        self.p_var, self.p_dir, self.p_null = p_var, p_dir, p_null
        self.p_boundary = p_boundary
        self.vars = {}     # name -> (type string, default literal or '', (provide, value))
        self.frags = {}    # complete fragments: name -> (type condition, body)
        self.nfrag = 0
        self.keys = {}     # response key -> signature (field name, args text, type string)
        self.nalias = 0
        self.labels = 0
        self.op = None
        self.op_dirs = ''

    # ---- top level
    def gen(self, op=None):
        r = self.r
        self.op = op or r.choice(self.ops)
        root = self.s.get_root_type(_optype(self.op)) or self.s.query_type
        if self.s.get_root_type(_optype(self.op)) is None:
            self.op = 'query'
        if self.op == 'subscription':
            fields = list(root.fields.items())
            fname, fdef = r.choice(fields)
            body = '{ ' + self.field(root, fname, fdef, 0, allow_dirs=False) + ' }'
        else:
            body = self.selset(root, 0)
        vdefs = ''
        if self.vars:
            vdefs = '(' + ', '.join(f'${n}: {t}{d}' for n, (t, d, _) in self.vars.items()) + ')'
        frs = '\n'.join(f'fragment {n} on {t} {b}' for n, (t, b) in self.frags.items())
        return f'{self.op} Q{vdefs}{self.op_dirs} {body}\n{frs}'

    def variables(self):
        return {n: val for n, (_, _, (provide, val)) in self.vars.items() if provide}

    # ---- selections
    def selset(self, t, depth):
        r = self.r
        items = []
        fields = list(t.fields.items()) if not is_union_type(t) else []
        n = r.randint(1, 4 if depth < 3 else 2)
        for _ in range(n):
            k = r.random()
            if k < 0.08 or not fields:
                items.append(self.keyed('__typename', '', 'String!', None) + '__typename')
            elif k < 0.25 and depth < self.max_depth:
                cond = self.pick_cond(t)
                inner = self.selset(self.s.type_map[cond] if cond else t, depth + 1)
                items.append(f'... {("on " + cond) if cond else ""}{self.frag_dirs(depth)} {inner}')
            elif k < 0.35 and depth < self.max_depth and self.nfrag < 5:
                cond = self.pick_cond(t) or t.name
                self.nfrag += 1
                name = f'F{self.nfrag}'
                body = self.selset(self.s.type_map[cond], depth + 1)
                self.frags[name] = (cond, body)
                items.append(f'...{name}{self.frag_dirs(depth)}')
            elif k < 0.42 and self.frags:
                name = r.choice(list(self.frags))
                cond = self.frags[name][0]
                if self.spreadable(t, self.s.type_map[cond]):
                    items.append(f'...{name}{self.frag_dirs(depth)}')
            else:
                fname, fdef = r.choice(fields)
                items.append(self.field(t, fname, fdef, depth))
        if not items:
            items.append('__typename')
        return '{ ' + ' '.join(items) + ' }'

    def poss(self, t):
        return {t.name} if is_object_type(t) else {p.name for p in self.s.get_possible_types(t)}

    def spreadable(self, parent, cond):
        return bool(self.poss(parent) & self.poss(cond))

    def pick_cond(self, t):
        cands = [None, t.name]
        if is_abstract_type(t):
            cands += [p.name for p in self.s.get_possible_types(t)]
        if is_object_type(t) or is_interface_type(t):
            cands += [i.name for i in t.interfaces]
        return self.r.choice(cands)

    def dirs(self):
        r = self.r
        if r.random() >= self.p_dir:
            return ''
        d = r.choice(['skip', 'include'])
        if r.random() < 0.5:
            return f' @{d}(if: {r.choice(["true", "false"])})'
        v = self.var('Boolean!', lambda: r.choice([True, False]))
        return f' @{d}(if: ${v})'

    def off_arg(self):
        """`if:` argument that switches @defer / @stream off (the only form a subscription may carry)."""
        if self.r.random() < 0.7:
            return 'if: false'
        name = f'v{len(self.vars)}'
        self.vars[name] = ('Boolean!', '', (True, False))
        return f'if: ${name}'

    def frag_dirs(self, depth):
        r = self.r
        s = self.dirs()
        if self.op == 'subscription' and r.random() < self.p_defer:
            args = [self.off_arg()]
            if r.random() < 0.5:
                self.labels += 1
                args.append(f'label: "d{self.labels}"')
            r.shuffle(args)
            return s + f' @defer({", ".join(args)})'
        if self.op != 'subscription' and r.random() < self.p_defer:
            args = []
            if r.random() < 0.7:
                self.labels += 1
                args.append(f'label: "d{self.labels}"')
            k = r.random()
            if k < 0.15:
                args.append('if: false')
            elif k < 0.3:
                args.append('if: true')
            elif k < 0.4:
                args.append('if: $' + self.var('Boolean!', lambda: r.choice([True, True, False])))
            s += ' @defer' + (f'({", ".join(args)})' if args else '')
        return s

    def stream_dir(self, list_type):
        r = self.r
        if self.op == 'subscription':
            if r.random() >= self.p_stream:
                return ''
            args = [self.off_arg()]
            if r.random() < 0.5:
                args.append(f'initialCount: {r.choice([0, 1, 2])}')
            if r.random() < 0.4:
                self.labels += 1
                args.append(f'label: "s{self.labels}"')
            r.shuffle(args)
            return f' @stream({", ".join(args)})'
        if r.random() >= self.p_stream:
            return ''
        args = []
        if r.random() < 0.7:
            self.labels += 1
            args.append(f'label: "s{self.labels}"')
        if r.random() < 0.8:
            args.append(f'initialCount: {r.choice([0, 0, 1, 2, 3])}')
        k = r.random()
        if k < 0.12:
            args.append('if: false')
        elif k < 0.2:
            args.append('if: $' + self.var('Boolean!', lambda: r.choice([True, True, False])))
        return ' @stream' + (f'({", ".join(args)})' if args else '')

    def keyed(self, fname, argtext, typestr, dirs_sig):
        """Return 'alias: ' (or '') such that the response key's signature is unique or identical."""
        r = self.r
        sig = (fname, argtext, typestr, dirs_sig)
        want = fname
        if r.random() < 0.25:
            # deliberately reuse an existing key with the same signature (merged fields), else a new alias
            same = [k for k, s in self.keys.items() if s == sig]
            if same and r.random() < 0.6:
                want = r.choice(same)
            else:
                self.nalias += 1
                want = f'a{self.nalias}_{fname}'[:24]
        if self.keys.get(want, sig) != sig:
            same = [k for k, s in self.keys.items() if s == sig]
            if same:
                want = r.choice(same)
            else:
                self.nalias += 1
                want = f'k{self.nalias}'
        self.keys[want] = sig
        return '' if want == fname else f'{want}: '

    def field(self, parent, fname, fdef, depth, allow_dirs=True):
        r = self.r
        args = []
        for aname, adef in fdef.args.items():
            req = is_non_null_type(adef.type) and adef.default is None
            if req or r.random() < 0.5:
                args.append(f'{aname}: {self.argval(adef.type, 0, adef.default is not None)}')
        argtext = f'({", ".join(args)})' if args else ''
        stream = ''
        t = fdef.type
        nt = t.of_type if is_non_null_type(t) else t
        if is_list_type(nt) and depth > 0 or (is_list_type(nt) and self.op == 'query'):
            stream = self.stream_dir(nt)
        s = self.keyed(fname, argtext, str(fdef.type), stream) + fname + argtext + (self.dirs() if allow_dirs else '') + stream
        named = get_named_type(fdef.type)
        if not is_leaf_type(named):
            if depth >= self.max_depth:
                s += ' { __typename }'
            else:
                s += ' ' + self.selset(named, depth + 1)
        return s

    # ---- values
    def var(self, tstr, mk, allow_default=True):
        r = self.r
        if r.random() < 0.3:
            same = [n for n, (t, _, _) in self.vars.items() if t == tstr]
            if same:
                return r.choice(same)
        name = f'v{len(self.vars)}'
        default = ''
        provide = r.random() < 0.7
        val = mk()
        nonnull = tstr.endswith('!')
        if allow_default and r.random() < 0.3:
            dv = mk()
            if not (nonnull and dv is None):
                default = ' = ' + self.lit_of(self.as_literal(dv, tstr))
        if nonnull and not default:
            provide = True
        if nonnull and val is None:
            provide = False if default else True
            if provide:
                val = mk()
                for _ in range(20):
                    if val is not None:
                        break
                    val = mk()
        self.vars[name] = (tstr, default, (provide, val))
        return name

    def as_literal(self, v, tstr):
        """Python runtime value -> literal-ish value (enum names become EnumLit) for type string tstr."""
        t = self.type_of_str(tstr)
        return self._as_lit(v, t)

    def _as_lit(self, v, t):
        if v is None:
            return None
        if is_non_null_type(t):
            return self._as_lit(v, t.of_type)
        if is_list_type(t):
            if isinstance(v, list):
                return [self._as_lit(i, t.of_type) for i in v]
            return self._as_lit(v, t.of_type)
        if is_input_object_type(t):
            return {k: self._as_lit(x, t.fields[k].type) for k, x in v.items()}
        if is_enum_type(t):
            return EnumLit(v)
        return v

    def type_of_str(self, tstr):
        from graphql import GraphQLList, GraphQLNonNull
        if tstr.endswith('!'):
            return GraphQLNonNull(self.type_of_str(tstr[:-1]))
        if tstr.startswith('['):
            return GraphQLList(self.type_of_str(tstr[1:-1]))
        return self.s.type_map[tstr]

    def lit_of(self, v):
        if v is None:
            return 'null'
        if isinstance(v, bool):
            return 'true' if v else 'false'
        if isinstance(v, (int, float)):
            return repr(v)
        if isinstance(v, EnumLit):
            return v.name
        if isinstance(v, str):
            return json.dumps(v)
        if isinstance(v, list):
            return '[' + ', '.join(self.lit_of(i) for i in v) + ']'
        if isinstance(v, dict):
            return '{' + ', '.join(f'{k}: {self.lit_of(x)}' for k, x in v.items()) + '}'
        raise AssertionError(v)

    def argval(self, t, d, has_default=False):
        r = self.r
        if r.random() < self.p_var:
            if has_default and is_non_null_type(t) and r.random() < 0.4:
                # a nullable variable in a non-null position that has a default: allowed by validation,
                # and the one case where a null value fails only at run time
                return '$' + self.var(str(t.of_type), lambda: self.pyval(t.of_type, d))
            return '$' + self.var(str(t), lambda: self.pyval(t, d))
        if r.random() < 0.5:
            return self.lit_text(t, d)
        return self.lit_of(self.pyval(t, d, literal=True))

    def lit_text(self, t, d, nonnull=False, novar=False, bare=False):
        """Literal text for type t with variables at nested positions (list items, input fields)."""
        r = self.r
        if is_non_null_type(t):
            return self.lit_text(t.of_type, d, True, novar, bare)
        if d > 0 and not novar and r.random() < self.p_var * 0.6:
            ts = str(t) + ('!' if nonnull else '')
            if nonnull and r.random() < self.p_boundary:
                ts = str(t)   # boundary case: a nullable variable in a non-null nested position (validation must reject it
                              # unless the position has a default of its own)
            tt = self.type_of_str(ts)
            return '$' + self.var(ts, lambda: self.pyval(tt, d))
        if not nonnull and r.random() < self.p_null:
            return 'null'
        if is_list_type(t):
            if r.random() < 0.2 and not is_list_type(t.of_type):
                # a single value where a list is expected (coerced to a list of one): the value itself cannot be a variable of
                # the item type, but an object literal may carry variables in its fields
                return self.lit_text(t.of_type, d + 1, novar=True, bare=True)
            return '[' + ', '.join(self.lit_text(t.of_type, d + 1) for _ in range(r.randint(0, 3))) + ']'
        if is_input_object_type(t) and getattr(t, 'is_one_of', False) and d < 3:
            # exactly one member; a variable there must be of non-null type (boundary case: a nullable one, which
            # validation must reject whatever wraps the OneOf type at this position)
            fname, fdef = r.choice(list(t.fields.items()))
            if (not novar or bare) and r.random() < max(self.p_var, 0.3):
                ts = str(fdef.type).rstrip('!') + ('' if r.random() < max(self.p_boundary, 0.15) else '!')
                tt = self.type_of_str(ts)
                return '{' + f'{fname}: $' + self.var(ts, lambda: self.pyval(tt, d + 1)) + '}'
            return '{' + f'{fname}: {self.lit_text(fdef.type, d + 1, nonnull=True, novar=True)}' + '}'
        if is_input_object_type(t) and not getattr(t, 'is_one_of', False) and d < 3:
            parts = []
            items = list(t.fields.items())
            if r.random() < 0.5:
                r.shuffle(items)
            for fname, fdef in items:
                req = is_non_null_type(fdef.type) and fdef.default is None
                if req or (r.random() < 0.4 and d < 2):
                    parts.append(f'{fname}: {self.lit_text(fdef.type, d + 1)}')
            return '{' + ', '.join(parts) + '}'
        return self.lit_of(self.pyval(t, d, literal=True, nonnull=True))

    def pyval(self, t, d, literal=False, nonnull=False):
        r = self.r
        if is_non_null_type(t):
            return self.pyval(t.of_type, d, literal, nonnull=True)
        if not nonnull and (r.random() < self.p_null or d > 6):
            return None
        if is_list_type(t):
            if d > 6:
                return []
            if r.random() < 0.2:  # single value -> list coercion
                inner = self.pyval(t.of_type, d + 1, literal)
                if inner is not None and not isinstance(inner, list):
                    return inner
            return [self.pyval(t.of_type, d + 1, literal) for _ in range(r.randint(0, 3))]
        if is_input_object_type(t):
            if getattr(t, 'is_one_of', False):
                members = list(t.fields.items())
                if d > 4:   # recursive OneOf types: head for a member that ends the value
                    from graphql import get_named_type, is_leaf_type
                    members = [m for m in members if is_leaf_type(get_named_type(m[1].type)) or is_list_type(m[1].type)] or members
                fname, fdef = r.choice(members)
                return {fname: self.pyval(fdef.type, d + 1, literal, nonnull=True)}
            out = {}
            for fname, fdef in t.fields.items():
                req = is_non_null_type(fdef.type) and fdef.default is None
                if req or (r.random() < 0.4 and d < 2):
                    out[fname] = self.pyval(fdef.type, d + 1, literal)
            return out
        n = t.name
        if n == 'Int':
            return r.choice([0, 1, -5, 2**31 - 1, 42, -2**31])
        if n == 'Float':
            return r.choice([0.5, 2, -1.25, 1e10, 3.0])
        if n == 'String':
            return r.choice(['', 'a b', 'q"x', 'ünï', 'line\nbreak'])
        if n == 'Boolean':
            return r.choice([True, False])
        if n == 'ID':
            return r.choice(['x1', 7, 'id-2'])
        if is_enum_type(t):
            name = r.choice(list(t.values))
            return EnumLit(name) if literal else name
        return r.choice(['custom', 3])  # custom scalar


def _optype(op):
    from graphql import OperationType
    return {'query': OperationType.QUERY, 'mutation': OperationType.MUTATION, 'subscription': OperationType.SUBSCRIPTION}[op]


def directive_argument_soup(schema):
    """Small exhaustive family: every executable directive at every kind of position of every operation type, with
    well- and ill-typed argument values.  Directive arguments are coerced by more than one component (literal rule,
    field collection in validation rules and in the executor), each of which must report, never raise."""
    from graphql import get_named_type, is_leaf_type
    values = ['true', 'false', 'null', '1', '"x"', '1.5', 'X', '[]', '{}', '$v', '[true]', '-1']
    out = []
    for op, root in (('query', schema.query_type), ('mutation', schema.mutation_type), ('subscription', schema.subscription_type)):
        if root is None:
            continue
        leaf = next((n for n, f in root.fields.items() if is_leaf_type(get_named_type(f.type)) and not any(
            str(a.type).endswith('!') and a.default is None for a in f.args.values())), None)
        lst = next((n for n, f in root.fields.items() if str(f.type).startswith('[') and is_leaf_type(get_named_type(f.type))), None)
        sel = leaf or '__typename'
        var = '($v: Boolean = false)'
        for val in values:
            head = f'{op} Q{var if val == "$v" else ""}'
            for d, arg in (('defer', 'if'), ('defer', 'label'), ('skip', 'if'), ('include', 'if')):
                out.append(f'{head} {{ ... @{d}({arg}: {val}) {{ {sel} }} }}')
                out.append(f'{head} {{ ...F @{d}({arg}: {val}) }} fragment F on {root.name} {{ {sel} }}')
                out.append(f'{head} {{ ... {{ ... @{d}({arg}: {val}) {{ {sel} }} }} }}')
            for d, arg in (('skip', 'if'), ('include', 'if')):
                out.append(f'{head} {{ {sel} @{d}({arg}: {val}) }}')
            if lst:
                for arg in ('if', 'initialCount', 'label'):
                    out.append(f'{head} {{ {lst} @stream({arg}: {val}) }}')
            out.append(f'{head} {{ ... @defer(label: {val}, if: {val}) {{ {sel} }} }}')
    return out


def oneof_literal_soup():
    """Documents over the rich schema that put well- and ill-formed literals at OneOf positions (argument, list item, nested
    field, variable default): none, one, several, null, unknown members."""
    lits = ['{}', '{nope: 1}', '{nope: 1, other: 2}', '{byId: null}', '{byId: 1}', '{byId: 1, byName: "n"}', '{byId: 1, nope: 2}', 'null', '1',
            '{byFilter: {}}', '{byFilter: {req: true}}', '{byFilter: null}', '[]', '$v', '{byId: $i}', '{byName: $i}']
    out = []
    for x in lits:
        head = 'query Q($v: Pick, $i: ID)' if '$' in x else 'query Q'
        out.append(f'{head} {{ byPick(p: {x}) }}')
        out.append(f'{head} {{ byPick(p: {{byId: 1}}, l: [{x}]) }}')
        out.append(f'{head} {{ byPick(p: {{byId: 1}}, l: {x}) }}')
        out.append(f'{head} {{ me {{ echo(pick: {x}) }} }}')
        if '$' not in x:
            out.append(f'query Q($d: Pick = {x}) {{ byPick(p: {{byId: 1}}, d: $d) }}')
            out.append(f'query Q($d: [Pick!] = [{x}]) {{ byPick(p: {{byId: 1}}, l: $d) }}')
    return out
