"""G-val: Python value universe for input coercion (C15) and result coercion (C16)."""
from __future__ import annotations

import enum
import math

from graphql import is_enum_type, is_input_object_type, is_list_type, is_non_null_type
from graphql.pyutils import Undefined


class IntSub(int):
    pass


class StrSub(str):
    pass


class Color(enum.IntEnum):
    RED = 1
    BIG = 2**40


class WithStr:
    def __init__(self, s):
        self.s = s

    def __str__(self):
        return self.s

    def __repr__(self):
        return f'WithStr({self.s!r})'


class Unhashable:
    __hash__ = None

    def __eq__(self, other):
        return isinstance(other, Unhashable)

    def __repr__(self):
        return 'Unhashable()'


INTS = [0, 1, -1, 7, 2**31 - 1, 2**31, -2**31, -2**31 - 1, 2**32, 2**53, 2**53 + 1, 2**63, 10**30, 10**400, -10**400, 10**5000,
        IntSub(5), IntSub(2**31), Color.RED, Color.BIG]
FLOATS = [0.0, -0.0, 1.0, -1.0, 0.5, 1.5, 2.0**31, 2.0**31 - 1, -2.0**31, 2.0**53, 1e22, 1e308, 5e-324, 2.5e-320, 123456789.0, 3.0000000001,
          float('nan'), float('inf'), float('-inf'), 1e16, 9007199254740993.0]
STRS = ['', ' ', 'a', 'abc', '1', '-1', '0', '1e3', ' 1', '1 ', '0x10', '1_0', '\u0663', '1.5', '2147483648', '-2147483649', '9007199254740993',
        'nan', 'inf', '-inf', 'Infinity', 'true', 'false', 'True', 'null', 'None', 'ADMIN', 'A', 'B', '\u0661\u0662', '1e400', '0.1', '+1', '1.', '.5', '\uff11',
        StrSub('7'), StrSub('sub'), '\u00e9', '\ud800', '\x00']
OTHERS = [None, True, False, b'', b'1', b'abc', [], [1], [[1]], (), (1, 2), {}, {'a': 1}, set(), {1}, frozenset([1]), object(), WithStr('5'),
          WithStr('text'), WithStr(''), Unhashable(), Undefined, 1 + 2j, range(3), math, Ellipsis, NotImplemented, lambda: 1, type, Color]
ALL = INTS + FLOATS + STRS + OTHERS


def any_value(rng):
    return rng.choice(ALL)


def shaped(rng, t, depth=0, p_bad=0.15):
    """A value shaped toward input type t (mostly acceptable), with a bad piece now and then."""
    if rng.random() < p_bad:
        return any_value(rng)
    if is_non_null_type(t):
        v = shaped(rng, t.of_type, depth, p_bad)
        return v if v is not None or rng.random() < 0.05 else shaped(rng, t.of_type, depth, 0)
    if rng.random() < 0.1:
        return None
    if is_list_type(t):
        if rng.random() < 0.15:
            return shaped(rng, t.of_type, depth + 1, p_bad)       # single value -> list
        ctor = rng.choice([list, list, list, tuple])
        return ctor(shaped(rng, t.of_type, depth + 1, p_bad / 2) for _ in range(rng.randint(0, 3)))
    if is_input_object_type(t):
        out = {}
        one_of = getattr(t, 'is_one_of', False)
        names = list(t.fields)
        if one_of and rng.random() < 0.8:
            k = rng.choice(names)
            return {k: shaped(rng, t.fields[k].type, depth + 1, p_bad / 2) if rng.random() < 0.9 else None}
        for k in names:
            f = t.fields[k]
            req = is_non_null_type(f.type) and f.default is None
            if (req and rng.random() < 0.95) or (rng.random() < 0.4 and depth < 3):
                out[k] = shaped(rng, f.type, depth + 1, p_bad / 2)
            elif rng.random() < 0.05:
                out[k] = Undefined
        if rng.random() < 0.05:
            out['unknownField'] = 1
        return out
    n = t.name
    if n == 'Int':
        return rng.choice([0, 1, -5, 42, 2**31 - 1, -2**31, 3.0, -0.0, IntSub(5), 7])
    if n == 'Float':
        return rng.choice([0.5, 2, -1.25, 1e10, 3.0, 0, 5e-324, 1e308, IntSub(5)])
    if n == 'String':
        return rng.choice(['', 'a b', 'q"x', '\u00e9', 'line\nbreak', StrSub('sub'), '\u2028'])
    if n == 'Boolean':
        return rng.choice([True, False])
    if n == 'ID':
        return rng.choice(['x1', 7, 'id-2', 0, 3.0, 2**40, ''])
    if is_enum_type(t):
        return rng.choice(list(t.values))
    return rng.choice(['custom', 3, {'any': 1}])
