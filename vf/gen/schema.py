"""G-schema: schema *models* (plain records), valid by construction, rendered three ways.

A model is a dict:
  types: {name: {kind, desc, ...}}   kinds: scalar object interface union enum input
  directives: {name: {desc, args, locations, repeatable, deprecation}}
  roots: {query, mutation, subscription} (names or None), schema_desc
Type references are nested tuples: ('n', 'Int') | ('l', ref) | ('nn', ref).
Defaults are GraphQL literal texts.  From a model the harness renders SDL (own renderer),
builds a programmatic GraphQLSchema, and computes a canonical description (vf/ref/schema_canon).
"""
from __future__ import annotations

import copy

BUILTIN = ['Int', 'Float', 'String', 'Boolean', 'ID']
TYPE_SYSTEM_LOCS = ['SCHEMA', 'SCALAR', 'OBJECT', 'FIELD_DEFINITION', 'ARGUMENT_DEFINITION', 'INTERFACE', 'UNION', 'ENUM', 'ENUM_VALUE',
                    'INPUT_OBJECT', 'INPUT_FIELD_DEFINITION']
EXEC_LOCS = ['QUERY', 'MUTATION', 'SUBSCRIPTION', 'FIELD', 'FRAGMENT_DEFINITION', 'FRAGMENT_SPREAD', 'INLINE_FRAGMENT', 'VARIABLE_DEFINITION']
ADVERSARIAL = ['', ' ', 'plain text', ' leading', 'trailing ', 'two\nlines', '\nstarts with newline', 'ends with newline\n', '  indented\n  both', ' a\n b',
               'quote " inside', 'triple """ quote', 'back\\slash', 'ends with backslash\\', 'ends with quote"', 'tab\there', 'cr\rhere', 'crlf\r\nhere',
               'uni' + chr(0x2028) + 'sep', 'nel\x85x', 'vt\x0bx', 'ff\x0cx', 'fs\x1cx', 'bom\ufeffx', 'emoji \U0001f600', '\u00e9', 'x' * 75, 'a\n\n\nb', '\t', 'a\n  b\n    c',
               'Heading\n\n  indented body\n  more', '  Hello world\n  second line', '\tx y\n\tz', '\\"""', '#not a comment', 'nul\x00byte', 'para' + chr(0x2029) + 'x', '  ', '\n', 'a\n',
               # lines that start with / consist of white space which is NOT indentation for a block string (only space and tab are)
               '\xa0first\n\xa0second', '\u3000a\n\u3000b\n\u3000c', 'Title\n\xa0', '\x1fx\nbody', '\xa0\nbody\n\u2003', '\u2003 x\n\u2003 y', 'a\n\xa0b\n\xa0c',
               '\x0bone\n\x0btwo', '\x0c\nx']


def ref_str(r):
    if r[0] == 'n':
        return r[1]
    if r[0] == 'l':
        return '[' + ref_str(r[1]) + ']'
    return ref_str(r[1]) + '!'


def named_of(r):
    while r[0] != 'n':
        r = r[1]
    return r[1]


def nullable(r):
    return r[1] if r[0] == 'nn' else r


class SchemaGen:
    def __init__(self, rng, adversarial=0.3, max_types=10, deprecated_directives=False):
        self.r = rng
        self.adv = adversarial
        self.max_types = max_types
        self.depdir = deprecated_directives
        self.n = 0

    # ---- helpers
    def text(self, p=0.4):
        r = self.r
        if r.random() >= p:
            return None
        if r.random() < self.adv:
            if r.random() < 0.5:
                return r.choice(ADVERSARIAL)
            # random layout soup: blanks, indentation and line breaks in every combination
            return ''.join(r.choice(['a', 'b c', ' ', '  ', '\n', '\n ', '\n  ', '\t', '"', '\\', 'word', '\n\n'])
                           for _ in range(r.randint(1, 8)))
        return r.choice(['A description.', 'short', 'Multi\nline description', 'with "quotes"'])

    def dep(self, p=0.15):
        r = self.r
        if r.random() >= p:
            return None
        k = r.random()
        if k < 0.3:
            return 'No longer supported'
        if k < 0.5 and self.adv:
            return r.choice(ADVERSARIAL)
        return r.choice(['use other', 'gone', ''])

    def wrap(self, name, allow_list=True):
        r = self.r
        ref = ('n', name)
        depth = 0
        while allow_list and depth < 3 and r.random() < 0.3:
            if r.random() < 0.4:
                ref = ('nn', ref)
            ref = ('l', ref)
            depth += 1
        if r.random() < 0.3:
            ref = ('nn', ref)
        return ref

    # ---- defaults: literal text of a value conforming to an input type
    def literal(self, m, ref, depth=0):
        r = self.r
        if ref[0] == 'nn':
            return self.literal_nn(m, ref[1], depth)
        if r.random() < 0.15:
            return 'null'
        return self.literal_nn(m, ref, depth)

    def literal_nn(self, m, ref, depth):
        r = self.r
        if ref[0] == 'nn':
            return self.literal_nn(m, ref[1], depth)
        if ref[0] == 'l':
            if r.random() < 0.15 and ref[1][0] != 'l' and nullable(ref[1])[0] != 'l':
                return self.literal_nn(m, ref[1], depth + 1)    # single value coerces to a list
            return '[' + ', '.join(self.literal(m, ref[1], depth + 1) for _ in range(r.randint(0, 2))) + ']'
        name = ref[1]
        if name == 'Int':
            return r.choice(['0', '1', '-5', '2147483647', '-2147483648', '-2147483647'])
        if name == 'Float':
            return r.choice(['0.5', '1', '-1.25', '1e10', '3.0'])
        if name == 'String':
            return r.choice(['""', '"a b"', '"q\\"x"', '"line\\nbreak"', '"\\u00e9"', '"""block"""']) if r.random() < 0.9 else '"uni\\u2028x"'
        if name == 'Boolean':
            return r.choice(['true', 'false'])
        if name == 'ID':
            return r.choice(['"x1"', '7', '"id-2"'])
        t = m['types'][name]
        if t['kind'] == 'enum':
            return r.choice(list(t['values']))
        if t['kind'] == 'scalar':
            return r.choice(['"custom"', '3', '{a: 1}', '[1, "x"]', 'true'])
        # input object
        if depth > 2:
            # must terminate: only required fields, nullable recursion left out
            fields = [(k, f) for k, f in t['fields'].items() if f['type'][0] == 'nn' and f['default'] is None]
        else:
            fields = [(k, f) for k, f in t['fields'].items() if (f['type'][0] == 'nn' and f['default'] is None) or r.random() < 0.4]
        if t.get('one_of'):
            cands = list(t['fields'].items())
            if depth > 1:
                cands = [(k, f) for k, f in cands if named_of(f['type']) not in m['types'] or m['types'][named_of(f['type'])]['kind'] != 'input'] or cands
            k, f = r.choice(cands)
            return '{' + f'{k}: {self.literal_nn(m, f["type"], depth + 1)}' + '}'
        if r.random() < 0.5:
            r.shuffle(fields)
        return '{' + ', '.join(f'{k}: {self.literal(m, f["type"], depth + 1)}' for k, f in fields) + '}'

    # ---- model
    def model(self):
        r = self.r
        m = {'types': {}, 'directives': {}, 'roots': {'query': None, 'mutation': None, 'subscription': None}, 'schema_desc': None}
        T = m['types']
        nscal, nenum, ninp, nint, nobj, nuni = (r.randint(0, 2), r.randint(0, 2), r.randint(0, 3), r.randint(0, 2), r.randint(1, 4), r.randint(0, 2))
        for i in range(nscal):
            T[f'Sc{i}'] = {'kind': 'scalar', 'desc': self.text(), 'specified_by': r.choice([None, None, 'https://example.com/spec', 'urn:x', ''])}
        for i in range(nenum):
            vals = {}
            for j in range(r.randint(1, 4)):
                vals[r.choice(['ADMIN', 'USER', 'GUEST', 'A', 'b_c', 'X9'])] = {'desc': self.text(0.3), 'deprecation': self.dep()}
            T[f'En{i}'] = {'kind': 'enum', 'desc': self.text(), 'values': vals}
        input_names = [f'In{i}' for i in range(ninp)]
        leaf_in = BUILTIN + [n for n, t in T.items() if t['kind'] in ('scalar', 'enum')]
        for name in input_names:
            T[name] = {'kind': 'input', 'desc': self.text(), 'fields': {}, 'one_of': r.random() < 0.2}
        for name in input_names:
            t = T[name]
            for j in range(r.randint(1, 4)):
                fname = r.choice(['a', 'b', 'c', 'id', 'nested', 'list', 'q'])
                target = r.choice(leaf_in + input_names) if r.random() < 0.8 else name
                ref = self.wrap(target)
                if t['one_of']:
                    ref = nullable(ref)
                if target in input_names and ref[0] == 'nn':
                    ref = ref[1]        # keep input cycles breakable: references to input objects stay nullable at the top
                t['fields'][fname] = {'type': ref, 'default': None, 'desc': self.text(0.3), 'deprecation': None}
        for name in input_names:
            t = T[name]
            if all(named_of(f['type']) in input_names for f in t['fields'].values()):
                t['fields']['leaf'] = {'type': ('n', 'Int'), 'default': None, 'desc': None, 'deprecation': None}
        # defaults after all input types exist (avoid default-value cycles: only defaults that do not mention input objects with defaults)
        for name in input_names:
            t = T[name]
            for fname, f in t['fields'].items():
                if not t['one_of'] and r.random() < 0.3 and named_of(f['type']) not in input_names:
                    f['default'] = self.literal(m, f['type'])
                if f['type'][0] != 'nn' or f['default'] is not None:
                    f['deprecation'] = self.dep(0.1)
        inames = [f'If{i}' for i in range(nint)]
        onames = [f'Ob{i}' for i in range(nobj)]
        unames = [f'Un{i}' for i in range(nuni)]
        out_leaf = BUILTIN + [n for n, t in T.items() if t['kind'] in ('scalar', 'enum')]
        out_all = out_leaf + inames + onames + unames
        in_all = leaf_in + input_names

        def field_set(n):
            fs = {}
            for j in range(n):
                fname = r.choice(['id', 'name', 'f', 'g', 'items', 'other', 'count'])
                args = {}
                for k in range(r.choice([0, 0, 1, 2])):
                    aname = r.choice(['first', 'filter', 'x', 'y'])
                    ref = self.wrap(r.choice(in_all))
                    default = self.literal(m, ref) if r.random() < 0.4 else None
                    args[aname] = {'type': ref, 'default': default, 'desc': self.text(0.2),
                                   'deprecation': self.dep(0.1) if (ref[0] != 'nn' or default is not None) else None}
                fs[fname] = {'type': self.wrap(r.choice(out_all)), 'args': args, 'desc': self.text(0.3), 'deprecation': self.dep()}
            return fs
        for i, name in enumerate(inames):
            T[name] = {'kind': 'interface', 'desc': self.text(), 'interfaces': [], 'fields': field_set(r.randint(1, 3))}
        # interface hierarchy: later interfaces may implement earlier ones (copying their fields)
        for i, name in enumerate(inames):
            for base in inames[:i]:
                if r.random() < 0.4:
                    self.implement(T, name, base)
        for name in onames:
            T[name] = {'kind': 'object', 'desc': self.text(), 'interfaces': [], 'fields': field_set(r.randint(1, 4))}
            for base in inames:
                if r.random() < 0.4:
                    self.implement(T, name, base)
        for name in unames:
            members = r.sample(onames, r.randint(1, len(onames)))
            T[name] = {'kind': 'union', 'desc': self.text(), 'members': members}
        # roots
        names = {'query': 'Query', 'mutation': 'Mutation', 'subscription': 'Subscription'}
        custom = r.random() < 0.3
        for op in ('query', 'mutation', 'subscription'):
            if op != 'query' and r.random() < 0.6:
                continue
            nm = (r.choice(['RootQ', 'MyMutation', 'Subs', 'Root']) + op[0].upper()) if (custom or (op != 'query' and r.random() < 0.15)) else names[op]
            T[nm] = {'kind': 'object', 'desc': self.text(), 'interfaces': [], 'fields': field_set(r.randint(1, 3))}
            m['roots'][op] = nm
        if custom and r.random() < 0.3 and 'Query' not in T:
            # a type called Query that is NOT the query root
            T['Query'] = {'kind': 'object', 'desc': None, 'interfaces': [], 'fields': field_set(1)}
        m['schema_desc'] = self.text(0.2)
        self._viral = None
        if r.random() < 0.12:
            # a type of any kind that merely carries a conventional root name without being that root
            free = [nm for op, nm in (('mutation', 'Mutation'), ('subscription', 'Subscription')) if m['roots'][op] is None and nm not in T]
            cands = [n for n in T if n not in m['roots'].values()]
            if free and cands:
                self._viral = (r.choice(cands), r.choice(free))
        # directives
        for i in range(r.randint(0, 2)):
            args = {}
            for k in range(r.choice([0, 1, 2])):
                ref = self.wrap(r.choice(in_all))
                default = self.literal(m, ref) if r.random() < 0.4 else None
                args[r.choice(['if', 'reason', 'n', 'opts'])] = {'type': ref, 'default': default, 'desc': self.text(0.2),
                                                                 'deprecation': self.dep(0.1) if (ref[0] != 'nn' or default is not None) else None}
            locs = r.sample(TYPE_SYSTEM_LOCS + EXEC_LOCS, r.randint(1, 4))
            if r.random() < 0.3 and 'SCHEMA' not in locs:
                locs.append('SCHEMA')
            m['directives'][f'dir{i}'] = {'desc': self.text(), 'args': args, 'locations': locs, 'repeatable': r.random() < 0.3,
                                          'deprecation': self.dep(0.3) if self.depdir else None}
        # shuffle definition order
        items = list(T.items())
        r.shuffle(items)
        m['types'] = dict(items)
        if self._viral:
            rename_type(m, *self._viral)
        return m

    def implement(self, T, name, base):
        t = T[name]
        if base in t['interfaces']:
            return
        inherited = {fn for i in t['interfaces'] for fn in T[i]['fields']}
        if any(fn in inherited and t['fields'][fn] != f for fn, f in T[base]['fields'].items()):
            return      # would need one field to satisfy two different interface fields
        # must also implement the base's own interfaces
        for bb in T[base]['interfaces']:
            self.implement(T, name, bb)
        t['interfaces'].append(base)
        for fname, f in T[base]['fields'].items():
            t['fields'][fname] = copy.deepcopy(f)


# ---------------- SDL renderer (own, independent of print_schema) ----------------
def rename_type(m, old, new):
    """Rename a type of the model everywhere it is referred to (definition order preserved)."""
    def ref(t):
        return ('n', new if t[1] == old else t[1]) if t[0] == 'n' else (t[0], ref(t[1]))

    def ivs(d):
        for a in d.values():
            a['type'] = ref(a['type'])
    m['types'] = {(new if n == old else n): t for n, t in m['types'].items()}
    for t in m['types'].values():
        if t['kind'] in ('object', 'interface'):
            t['interfaces'] = [new if i == old else i for i in t['interfaces']]
            for f in t['fields'].values():
                f['type'] = ref(f['type'])
                ivs(f['args'])
        elif t['kind'] == 'input':
            ivs(t['fields'])
        elif t['kind'] == 'union':
            t['members'] = [new if x == old else x for x in t['members']]
    for d in m['directives'].values():
        ivs(d['args'])
    for op, nm in m['roots'].items():
        if nm == old:
            m['roots'][op] = new


def q(s):
    """GraphQL quoted string literal for any text."""
    out = ['"']
    for ch in s:
        cp = ord(ch)
        if ch == '"':
            out.append('\\"')
        elif ch == '\\':
            out.append('\\\\')
        elif ch == '\n':
            out.append('\\n')
        elif ch == '\r':
            out.append('\\r')
        elif ch == '\t':
            out.append('\\t')
        elif cp < 0x20 or cp == 0x7f:
            out.append('\\u%04x' % cp)
        else:
            out.append(ch)
    return ''.join(out) + '"'


def desc_sdl(d, indent=''):
    return '' if d is None else indent + q(d) + '\n'


def dep_sdl(reason):
    if reason is None:
        return ''
    if reason == 'No longer supported':
        return ' @deprecated'
    return f' @deprecated(reason: {q(reason)})'


def args_sdl(args):
    if not args:
        return ''
    parts = []
    for n, a in args.items():
        parts.append((q(a['desc']) + ' ' if a['desc'] is not None else '') + f'{n}: {ref_str(a["type"])}'
                     + (f' = {a["default"]}' if a['default'] is not None else '') + dep_sdl(a['deprecation']))
    return '(' + ', '.join(parts) + ')'


def render_sdl(m, order=None):
    out = []
    roots = m['roots']
    default_names = all(roots[op] in (None, nm) for op, nm in (('query', 'Query'), ('mutation', 'Mutation'), ('subscription', 'Subscription')))
    uses_default_elsewhere = any(nm in m['types'] and roots[op] != nm for op, nm in (('query', 'Query'), ('mutation', 'Mutation'), ('subscription', 'Subscription')))
    if m['schema_desc'] is not None or not default_names or uses_default_elsewhere:
        out.append(desc_sdl(m['schema_desc']) + 'schema { ' + ' '.join(f'{op}: {nm}' for op, nm in roots.items() if nm) + ' }')
    for name, d in m['directives'].items():
        out.append(desc_sdl(d['desc']) + f'directive @{name}{args_sdl(d["args"])}{dep_sdl(d.get("deprecation"))}'
                   + (' repeatable' if d['repeatable'] else '') + ' on ' + ' | '.join(d['locations']))
    for name in (order or m['types']):
        t = m['types'][name]
        k = t['kind']
        head = desc_sdl(t['desc'])
        if k == 'scalar':
            out.append(head + f'scalar {name}' + (f' @specifiedBy(url: {q(t["specified_by"])})' if t['specified_by'] is not None else ''))
        elif k in ('object', 'interface'):
            impl = (' implements ' + ' & '.join(t['interfaces'])) if t['interfaces'] else ''
            fields = '\n'.join(desc_sdl(f['desc'], '  ') + f'  {fn}{args_sdl(f["args"])}: {ref_str(f["type"])}{dep_sdl(f["deprecation"])}'
                               for fn, f in t['fields'].items())
            out.append(head + f'{"type" if k == "object" else "interface"} {name}{impl} {{\n{fields}\n}}')
        elif k == 'union':
            out.append(head + f'union {name} = ' + ' | '.join(t['members']))
        elif k == 'enum':
            vals = '\n'.join(desc_sdl(v['desc'], '  ') + f'  {vn}{dep_sdl(v["deprecation"])}' for vn, v in t['values'].items())
            out.append(head + f'enum {name} {{\n{vals}\n}}')
        else:
            fields = '\n'.join(desc_sdl(f['desc'], '  ') + f'  {fn}: {ref_str(f["type"])}' + (f' = {f["default"]}' if f['default'] is not None else '')
                               + dep_sdl(f['deprecation']) for fn, f in t['fields'].items())
            out.append(head + f'input {name}' + (' @oneOf' if t.get('one_of') else '') + f' {{\n{fields}\n}}')
    return '\n\n'.join(out) + '\n'


# ---------------- programmatic construction ----------------
class _Subclassed:
    """The graphql namespace with every type class replaced by a trivial subclass of it (applications subclass the type
    classes to attach their own attributes; such a schema is as valid as one made of the library's own classes)."""
    NAMES = ('GraphQLList', 'GraphQLNonNull', 'GraphQLScalarType', 'GraphQLEnumType', 'GraphQLInputObjectType', 'GraphQLInterfaceType',
             'GraphQLObjectType', 'GraphQLUnionType')

    def __init__(self, G):
        self._G = G
        for n in self.NAMES:
            setattr(self, n, type('App' + n[7:], (getattr(G, n),), {}))

    def __getattr__(self, name):
        return getattr(self._G, name)


def build_programmatic(m, default_mode='literal', subclassed=False):
    """Assemble a GraphQLSchema from constructors (no SDL involved).

    default_mode: 'literal' (GraphQLDefaultInput(literal=parsed AST)) | 'value' (external Python value)
    subclassed: use trivial subclasses of the library's type classes for every named type and wrapper
    """
    import graphql as G
    if subclassed:
        G = _Subclassed(G)
    from graphql.language import parse_const_value
    from graphql.type import GraphQLDefaultInput
    objs = {}
    specified = {'Int': G.GraphQLInt, 'Float': G.GraphQLFloat, 'String': G.GraphQLString, 'Boolean': G.GraphQLBoolean, 'ID': G.GraphQLID}

    def typ(ref):
        if ref[0] == 'n':
            return specified.get(ref[1]) or objs[ref[1]]
        if ref[0] == 'l':
            return G.GraphQLList(typ(ref[1]))
        return G.GraphQLNonNull(typ(ref[1]))

    def default(a):
        if default_mode == 'value' and 'pyvalue' in a:
            return GraphQLDefaultInput(value=a['pyvalue'])    # an explicit external value (possibly ill-typed)
        if a['default'] is None:
            return None
        node = parse_const_value(a['default'])
        if default_mode == 'value':
            return GraphQLDefaultInput(value=py_value(node))
        return GraphQLDefaultInput(literal=node)

    def py_value(node):
        from graphql.language import ast as A
        if isinstance(node, A.NullValueNode):
            return None
        if isinstance(node, A.IntValueNode):
            return int(node.value)
        if isinstance(node, A.FloatValueNode):
            return float(node.value)
        if isinstance(node, (A.StringValueNode, A.BooleanValueNode, A.EnumValueNode)):
            return node.value
        if isinstance(node, A.ListValueNode):
            return [py_value(v) for v in node.values]
        return {f.name.value: py_value(f.value) for f in node.fields}

    def mk_args(args):
        return {n: G.GraphQLArgument(typ(a['type']), default=default(a), description=a['desc'], deprecation_reason=a['deprecation'])
                for n, a in args.items()}

    def mk_fields(t):
        return lambda: {fn: G.GraphQLField(typ(f['type']), args=mk_args(f['args']), description=f['desc'], deprecation_reason=f['deprecation'])
                        for fn, f in t['fields'].items()}

    for name, t in m['types'].items():
        k = t['kind']
        if k == 'scalar':
            objs[name] = G.GraphQLScalarType(name, description=t['desc'], specified_by_url=t['specified_by'])
        elif k == 'enum':
            objs[name] = G.GraphQLEnumType(name, {vn: G.GraphQLEnumValue(vn, description=v['desc'], deprecation_reason=v['deprecation'])
                                                  for vn, v in t['values'].items()}, description=t['desc'])
        elif k == 'input':
            objs[name] = G.GraphQLInputObjectType(
                name, (lambda t=t: {fn: G.GraphQLInputField(typ(f['type']), default=default(f), description=f['desc'],
                                                            deprecation_reason=f['deprecation']) for fn, f in t['fields'].items()}),
                description=t['desc'], is_one_of=bool(t.get('one_of')))
        elif k == 'interface':
            objs[name] = G.GraphQLInterfaceType(name, mk_fields(t), interfaces=(lambda t=t: [objs[i] for i in t['interfaces']]), description=t['desc'])
        elif k == 'object':
            objs[name] = G.GraphQLObjectType(name, mk_fields(t), interfaces=(lambda t=t: [objs[i] for i in t['interfaces']]), description=t['desc'])
        else:
            objs[name] = G.GraphQLUnionType(name, (lambda t=t: [objs[x] for x in t['members']]), description=t['desc'])
    directives = [d for d in G.specified_directives if d.name not in m['directives']]      # a schema may define these names itself
    for name, d in m['directives'].items():
        kw = {}
        if d.get('deprecation') is not None:
            kw['deprecation_reason'] = d['deprecation']
        directives.append(G.GraphQLDirective(name, [G.DirectiveLocation[x] for x in d['locations']], args=mk_args(d['args']),
                                             is_repeatable=d['repeatable'], description=d['desc'], **kw))
    roots = m['roots']
    return G.GraphQLSchema(query=objs.get(roots['query']), mutation=objs.get(roots['mutation']), subscription=objs.get(roots['subscription']),
                           types=[objs[n] for n in m['types']], directives=directives, description=m['schema_desc'])


# ---------------- splitting a model into base + extension document ----------------
def _iv_sdl(n, a):
    return ((q(a['desc']) + ' ' if a['desc'] is not None else '') + f'{n}: {ref_str(a["type"])}'
            + (f' = {a["default"]}' if a['default'] is not None else '') + dep_sdl(a['deprecation']))


def _field_sdl(fn, f):
    return desc_sdl(f['desc'], '  ') + f'  {fn}{args_sdl(f["args"])}: {ref_str(f["type"])}{dep_sdl(f["deprecation"])}'


def references(m, skip_type=None):
    """Names of types referenced anywhere in model m (optionally ignoring one type's own body)."""
    out = set()
    for name, t in m['types'].items():
        if name == skip_type:
            continue
        k = t['kind']
        if k in ('object', 'interface'):
            out.update(t['interfaces'])
            for f in t['fields'].values():
                out.add(named_of(f['type']))
                out.update(named_of(a['type']) for a in f['args'].values())
        elif k == 'union':
            out.update(t['members'])
        elif k == 'input':
            out.update(named_of(f['type']) for f in t['fields'].values())
    for d in m['directives'].values():
        out.update(named_of(a['type']) for a in d['args'].values())
    out.update(v for v in m['roots'].values() if v)
    return out


def split_extension(rng, m):
    """Return (base model A, extension SDL text B) such that A + B defines exactly m (member order preserved)."""
    A = copy.deepcopy(m)
    blocks = []
    for name, t in A['types'].items():
        k = t['kind']
        full = m['types'][name]
        if k in ('object', 'interface'):
            names = list(t['fields'])
            cut = rng.randint(1, len(names)) if rng.random() < 0.6 else len(names)
            moved = names[cut:]
            ifaces = []
            if t['interfaces'] and rng.random() < 0.4:
                keep = rng.randint(0, len(t['interfaces']))
                ifaces = t['interfaces'][keep:]
                t['interfaces'] = t['interfaces'][:keep]
            if moved or ifaces:
                for fn in moved:
                    del t['fields'][fn]
                kw = 'type' if k == 'object' else 'interface'
                body = (' {\n' + '\n'.join(_field_sdl(fn, full['fields'][fn]) for fn in moved) + '\n}') if moved else ''
                blocks.append(f'extend {kw} {name}' + ((' implements ' + ' & '.join(ifaces)) if ifaces else '') + body)
        elif k == 'input':
            names = list(t['fields'])
            cut = rng.randint(1, len(names)) if rng.random() < 0.6 else len(names)
            moved = names[cut:]
            if moved:
                for fn in moved:
                    del t['fields'][fn]
                blocks.append(f'extend input {name} {{\n' + '\n'.join('  ' + _iv_sdl(fn, full['fields'][fn]) for fn in moved) + '\n}')
        elif k == 'enum':
            names = list(t['values'])
            cut = rng.randint(1, len(names)) if rng.random() < 0.6 else len(names)
            moved = names[cut:]
            if moved:
                for vn in moved:
                    del t['values'][vn]
                blocks.append(f'extend enum {name} {{\n' + '\n'.join(desc_sdl(full['values'][vn]['desc'], '  ') + f'  {vn}{dep_sdl(full["values"][vn]["deprecation"])}'
                                                                     for vn in moved) + '\n}')
        elif k == 'scalar':
            # @specifiedBy moves to an extension; further extensions that only apply a directive come before or after it
            ext = []
            if t.get('specified_by') is not None and rng.random() < 0.6:
                ext.append(f'extend scalar {name} @specifiedBy(url: {q(t["specified_by"])})')
                t['specified_by'] = None
            on_scalar = [dn for dn, d in m['directives'].items() if 'SCALAR' in d['locations']
                         and all(a['type'][0] != 'nn' or a['default'] is not None for a in d['args'].values())]
            if on_scalar and rng.random() < 0.6:
                for dn in rng.sample(on_scalar, min(len(on_scalar), rng.randint(1, 2))):     # each at most once (non-repeatable)
                    ext.insert(rng.randint(0, len(ext)), f'extend scalar {name} @{dn}')
            blocks.extend(ext)
        elif k == 'union':
            cut = rng.randint(1, len(t['members'])) if rng.random() < 0.6 else len(t['members'])
            moved = t['members'][cut:]
            if moved:
                t['members'] = t['members'][:cut]
                blocks.append(f'extend union {name} = ' + ' | '.join(moved))
    # whole directives move to the extension document
    new_defs = []
    for dn in list(A['directives']):
        if rng.random() < 0.4:
            d = A['directives'].pop(dn)
            new_defs.append(desc_sdl(d['desc']) + f'directive @{dn}{args_sdl(d["args"])}{dep_sdl(d.get("deprecation"))}'
                            + (' repeatable' if d['repeatable'] else '') + ' on ' + ' | '.join(d['locations']))
    # a non-query root operation type may be added by `extend schema` when the base declares its roots explicitly
    default_like = any(nm in ('Query', 'Mutation', 'Subscription') for nm in A['types'])
    schema_ext = []
    if not default_like:
        for op in ('mutation', 'subscription'):
            if A['roots'][op] and rng.random() < 0.6:
                schema_ext.append(f'{op}: {A["roots"][op]}')
                A['roots'][op] = None
    # with conventional root names only operation types of other names can be added later
    if default_like:
        for op, conv in (('mutation', 'Mutation'), ('subscription', 'Subscription')):
            if A['roots'][op] and A['roots'][op] != conv and rng.random() < 0.7:
                schema_ext.append(f'{op}: {A["roots"][op]}')
                A['roots'][op] = None
    # a directive applied to the schema by extension (no effect on the printed schema)
    applied = [dn for dn, d in m['directives'].items() if 'SCHEMA' in d['locations']
               and all(a['type'][0] != 'nn' or a['default'] is not None for a in d['args'].values())]
    sdir = (' @' + rng.choice(applied)) if applied and rng.random() < 0.6 else ''
    if schema_ext or sdir:
        blocks.append('extend schema' + sdir + ((' { ' + ' '.join(schema_ext) + ' }') if schema_ext else ''))
    # whole types that nothing in the base refers to any more move to the extension document, in model order
    moved_types = []
    for name in list(A['types']):
        if name in A['roots'].values() or rng.random() < 0.5 or name in ('Query', 'Mutation', 'Subscription'):
            # (a type with a conventional root name stays in the base document: whether the base needs an explicit schema
            # block must not depend on what the extension adds later)
            continue
        if name not in references(A, skip_type=name) and name not in references(A):
            moved_types.append(name)
            t = A['types'].pop(name)
            A['types'][name] = t      # keep lookup for rendering below
    sub = {'types': {n: A['types'][n] for n in moved_types}, 'directives': {}, 'roots': {'query': None, 'mutation': None, 'subscription': None},
           'schema_desc': None}
    for n in moved_types:
        del A['types'][n]
    type_defs = [x for x in render_types_only(sub)]
    order_sensitive = type_defs + new_defs      # relative order of new types / directives decides their order in the schema
    rng.shuffle(blocks)
    # interleave: extensions may come anywhere, definitions keep their relative order
    out = []
    defs = list(order_sensitive)
    while blocks or defs:
        if defs and (not blocks or rng.random() < 0.5):
            out.append(defs.pop(0))
        else:
            out.append(blocks.pop())
    return A, '\n\n'.join(out) + '\n', moved_types


def render_types_only(m):
    text = render_sdl({**m, 'schema_desc': None, 'roots': {'query': None, 'mutation': None, 'subscription': None}, 'directives': {}})
    return [b for b in text.strip('\n').split('\n\n') if b and not b.startswith('schema')] if m['types'] else []
