"""Observation of the real lexer at its public boundary (Lexer.advance + token links)."""
from __future__ import annotations

from graphql import GraphQLSyntaxError
from graphql.language import Lexer, Source, TokenKind


def real_tokens(s, with_linecol=False):
    """All tokens incl. comments as (kind, start, end, value[, line, column]).

    Raises GraphQLSyntaxError if the source does not lex; any other exception
    propagates (the caller classifies it as a crash).
    """
    lx = Lexer(Source(s))
    out = []
    tok = lx.token  # SOF
    while True:
        nxt = lx.advance()
        t = tok.next
        while t is not None and t is not nxt:
            out.append(_rec(t, with_linecol))
            t = t.next
        if nxt.kind == TokenKind.EOF:
            eof = nxt
            break
        out.append(_rec(nxt, with_linecol))
        tok = nxt
    return out, eof


def _rec(t, with_linecol):
    if with_linecol:
        return (t.kind.name, t.start, t.end, t.value, t.line, t.column)
    return (t.kind.name, t.start, t.end, t.value)


def outcome(s):
    """('ok', tokens) | ('err', message, position) | ('crash', exception type name, text)."""
    try:
        toks, _ = real_tokens(s)
        return ('ok', toks)
    except GraphQLSyntaxError as e:
        return ('err', e.message, e.positions)
    except Exception as e:  # noqa: BLE001
        return ('crash', type(e).__name__, str(e)[:200])
