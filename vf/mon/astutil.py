"""AST helpers written from the harness side (no use of the library's visitor/printer)."""
from __future__ import annotations

import dataclasses
import enum

from graphql.language import ast as A

Node = A.Node


def plain(x, with_loc=False):
    """Convert a node (tree) into nested tuples; `loc` is dropped unless with_loc."""
    if isinstance(x, Node):
        items = []
        for f in dataclasses.fields(x):
            if f.name == 'loc':
                if with_loc:
                    loc = x.loc
                    items.append(('loc', None if loc is None else (loc.start, loc.end)))
                continue
            items.append((f.name, plain(getattr(x, f.name), with_loc)))
        return (type(x).__name__, tuple(items))
    if isinstance(x, (tuple, list)):
        return tuple(plain(i, with_loc) for i in x)
    if isinstance(x, enum.Enum):
        return ('enum', x.name)
    return x


def first_diff(a, b, path='$'):
    """Human-readable first difference between two plain() trees, or None."""
    if a == b:
        return None
    if isinstance(a, tuple) and isinstance(b, tuple):
        if len(a) == 2 and len(b) == 2 and isinstance(a[0], str) and isinstance(b[0], str) and isinstance(a[1], tuple) and isinstance(b[1], tuple) and a[0][:1].isupper():
            if a[0] != b[0]:
                return f'{path}: node class {a[0]} vs {b[0]}'
            da, db = dict(a[1]), dict(b[1])
            for k in da:
                if k not in db:
                    return f'{path}.{k}: missing on right'
                d = first_diff(da[k], db[k], f'{path}.{k}')
                if d:
                    return d
            return f'{path}: fields differ'
        if len(a) != len(b):
            return f'{path}: length {len(a)} vs {len(b)}'
        for i, (x, y) in enumerate(zip(a, b)):
            d = first_diff(x, y, f'{path}[{i}]')
            if d:
                return d
    return f'{path}: {a!r} vs {b!r}'


def child_nodes(node):
    """(field name, index or None, child) for every node-valued field, in dataclass order."""
    for f in dataclasses.fields(node):
        if f.name == 'loc':
            continue
        v = getattr(node, f.name)
        if isinstance(v, Node):
            yield f.name, None, v
        elif isinstance(v, (tuple, list)):
            for i, item in enumerate(v):
                if isinstance(item, Node):
                    yield f.name, i, item


def walk(node):
    yield node
    for _, _, c in child_nodes(node):
        yield from walk(c)


def rebuild(x, fn):
    """Copy a tree bottom-up through the node constructors; fn(node_copy) may return a replacement."""
    if isinstance(x, Node):
        kw = {}
        for f in dataclasses.fields(x):
            v = getattr(x, f.name)
            if f.name == 'loc':
                kw['loc'] = None
            elif isinstance(v, Node):
                kw[f.name] = rebuild(v, fn)
            elif isinstance(v, tuple):
                kw[f.name] = tuple(rebuild(i, fn) if isinstance(i, Node) else i for i in v)
            elif isinstance(v, list):
                kw[f.name] = [rebuild(i, fn) if isinstance(i, Node) else i for i in v]
            else:
                kw[f.name] = v
        n = type(x)(**kw)
        r = fn(n)
        return n if r is None else r
    return x
