"""One controlled run of the real incremental executor, observed at the API boundary.

Used by C04 (merge), C05 (protocol) and C06 (stopping early).  The consumer coroutine is
itself gated by the scheduler ('pull#k'), so consumer timing is part of the schedule.
"""
from __future__ import annotations

import asyncio

from graphql import ExecutionResult
from graphql.execution import ExecutionHooks, experimental_execute_incrementally
from graphql.pyutils import AbortController

from .aharness import Harness
from .loop import Run, Scheduler


class Observation:
    def __init__(self):
        self.kind = None            # 'single' | 'incremental' | 'raised'
        self.initial = None         # formatted initial / single result
        self.payloads = []          # formatted subsequent payloads
        self.ended = False          # the payload stream raised StopAsyncIteration
        self.raised = None          # exception that came out of execute / anext
        self.raised_at = None       # 'execute' | 'pull#k' | 'aclose'
        self.hook_calls = []        # [{'unfinished': [...], 'background': n}]
        self.stopped = None         # description of the stop action performed
        self.caller_done = False
        self.extra_payload_objects = []
        self.state_at_stop = None
        self.partial_was_incremental = False
        self.partial_error = None
        self.partial_await_error = None
        self.closed_after_raise = False
        self.result_step = None
        self.stop_step = None


def run_incremental(schema, doc, variables, value_fn, seed, p_async=0.5, policy='random', early=False, script=None,
                    stop=None, with_signal=False, rng=None, p_iter=0.2, p_item_async=0.2, max_pulls=200, harness_cls=Harness, source_burst=1,
                    tof=False, p_double=0.0, p_task=0.0, slow_close=False):
    """stop: None | ('aclose', k) | ('abort', reason) | ('abort', reason, 'before') | ('cancel-pull', k)

    abort is an external scheduler action, enabled from the start; with 'before' the signal is already aborted when the
    execution is started.  cancel-pull: the consumer's k-th pull runs as a task of its own which the scheduler may cancel
    while it is in flight (asyncio.wait_for / a disconnecting client), after which the consumer closes the stream.
    tof: values carry no __typename and no type resolver is given (abstract types resolve through is_type_of functions,
    synchronous or awaitable, of a schema made by gen.schemas.rich_is_type_of)."""
    import random
    rng = rng or random.Random(seed)
    sched = Scheduler(rng, policy=policy, script=script)
    sched.p_double = p_double
    run = Run(sched)
    hz = harness_cls(sched, value_fn, seed, p_async=p_async, p_iter=p_iter, p_item_async=p_item_async, schema=schema,
                     **({'hide_typename': True, 'p_type_async': 0.5} if tof else {}))
    hz.source_burst = source_burst
    hz.p_task = p_task
    hz.slow_close = slow_close
    if tof:
        from . import aharness
        aharness._current[0] = hz
    obs = Observation()
    obs.resolver_log = hz.log
    controller = AbortController() if (with_signal or (stop and stop[0] == 'abort')) else None
    executor_ref = {}

    def hook(info):
        ex = info.executor
        executor_ref['executor'] = ex
        obs.hook_calls.append({'unfinished': hz.unfinished(), 'background': len(getattr(ex, 'background_futures', ()) or ()),
                               'step': sched.step})

    def state_signature():
        return (len([1 for f in sched.gates.values() if not f.done()]), len(hz.unfinished()), len(obs.payloads),
                sum(1 for i in hz.iterators if i.started and not i.exhausted), bool(early))

    abort_before = bool(stop and stop[0] == 'abort' and len(stop) > 2 and stop[2] == 'before')
    abort_in_resolver = bool(stop and stop[0] == 'abort' and len(stop) > 3 and stop[2] == 'in-resolver')
    if abort_in_resolver:
        # the n-th resolver invocation triggers the signal itself (a resolver that gives up on the whole operation): the
        # abort lands in the middle of a synchronous pass, where no outside party could fire it
        def abort_now():
            obs.stopped = ('abort', sched.step)
            obs.stop_step = sched.step
            obs.state_at_stop = state_signature()
            sched.freeze_gates = True
            sched.externals.pop('abort', None)
            controller.abort(stop[1])
        hz.abort_at, hz.abort_fn = stop[3], abort_now
    if stop and stop[0] == 'abort' and not abort_before and not abort_in_resolver:
        def do_abort():
            obs.stopped = ('abort', sched.step)
            obs.stop_step = sched.step
            obs.state_at_stop = state_signature()
            sched.freeze_gates = True       # a stop must cancel outstanding work, not wait for it
            controller.abort(stop[1])
        sched.external('abort', do_abort)

    async def pull(it, k):
        if not (stop and stop[0] == 'cancel-pull' and k == stop[1]):
            return await anext(it)
        t = asyncio.ensure_future(it.__anext__())

        def do_cancel():
            if t.done():
                return
            obs.stopped = ('cancel-pull', k)
            obs.stop_step = sched.step
            obs.state_at_stop = state_signature()
            sched.freeze_gates = True
            t.cancel()
        sched.external('cancel-pull', do_cancel)
        try:
            return await t
        finally:
            sched.externals.pop('cancel-pull', None)

    async def main():
        try:
            if abort_before:
                obs.stopped = ('abort', 0)
                obs.stop_step = 0
                obs.state_at_stop = state_signature()
                sched.freeze_gates = True
                controller.abort(stop[1])
            result = experimental_execute_incrementally(
                schema, doc, None, variable_values=variables, field_resolver=hz.resolver, type_resolver=None if tof else hz.type_resolver,
                enable_early_execution=early, hooks=ExecutionHooks(hook), abort_signal=controller.signal if controller else None)
            if hasattr(result, '__await__'):
                result = await result
        except BaseException as e:  # noqa: BLE001
            obs.kind, obs.raised, obs.raised_at = 'raised', e, 'execute'
            sched.externals.pop('abort', None)
            # a responsible caller disposes of the partial result the abort error carries: if it is an
            # incremental one, its payload stream is closed (never iterated)
            partial = getattr(e, 'aborted_result', None)
            try:
                if hasattr(partial, '__await__'):
                    try:
                        partial = await partial
                    except BaseException as e3:  # noqa: BLE001
                        # an execution that was aborted between two serially executed root fields has no partial result:
                        # what it would have produced is rejected with the abort reason
                        obs.partial_await_error = e3
                        partial = None
                stream = getattr(partial, 'subsequent_results', None)
                if stream is not None:
                    obs.partial_was_incremental = True
                    await stream.aclose()
            except BaseException as e2:  # noqa: BLE001
                obs.partial_error = e2
            return obs
        obs.result_step = sched.step
        if isinstance(result, ExecutionResult):
            obs.kind = 'single'
            obs.initial = result.formatted
            obs.result_object = result
            sched.externals.pop('abort', None)
            return obs
        obs.kind = 'incremental'
        obs.initial = result.initial_result.formatted
        it = result.subsequent_results
        k = 0
        try:
            while k < max_pulls:
                if stop and stop[0] == 'aclose' and k == stop[1]:
                    obs.stopped = ('aclose', k)
                    obs.stop_step = sched.step
                    obs.state_at_stop = state_signature()
                    sched.freeze_gates = True
                    try:
                        await it.aclose()
                    except BaseException as e:  # noqa: BLE001
                        obs.raised, obs.raised_at = e, 'aclose'
                    return obs
                await sched.gate(f'pull#{k}')
                try:
                    p = await pull(it, k)
                except StopAsyncIteration:
                    obs.ended = True
                    break
                except asyncio.CancelledError as e:
                    if not (obs.stopped and obs.stopped[0] == 'cancel-pull'):
                        obs.raised, obs.raised_at = e, f'pull#{k}'
                        break
                    # the consumer gave up waiting for this payload: it closes the stream it stops reading
                    try:
                        await it.aclose()
                    except BaseException as e2:  # noqa: BLE001
                        obs.raised, obs.raised_at = e2, 'aclose'
                    return obs
                except BaseException as e:  # noqa: BLE001
                    obs.raised, obs.raised_at = e, f'pull#{k}'
                    if (seed + k) % 2 == 0:
                        # a tidy consumer closes the stream it stops reading (try/finally, aclosing()): closing a stream
                        # that has already raised must be a no-op, in particular no second clean-up
                        obs.closed_after_raise = True
                        try:
                            await it.aclose()
                        except BaseException as e2:  # noqa: BLE001
                            obs.partial_error = e2
                    break
                obs.payloads.append(p.formatted)
                k += 1
            if obs.ended:
                # nothing may follow the end of the stream
                try:
                    extra = await anext(it)
                    obs.extra_payload_objects.append(extra.formatted)
                except StopAsyncIteration:
                    pass
                except BaseException as e:  # noqa: BLE001
                    obs.extra_payload_objects.append(repr(e))
        finally:
            sched.externals.pop('abort', None)
        return obs

    run.drive(main)
    obs.caller_done = not run.deadlock and run.exception is None
    return run, sched, hz, obs
