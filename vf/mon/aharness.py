"""Harness-side resolvers, type resolvers and iterators whose suspension points are scheduler gates.

Everything the executor may await is created here, so the scheduler controls every
completion; each awaitable logs invoke / enter / exit so that monitors can tell which
harness coroutines the executor started and whether they have unwound (finally run).
"""
from __future__ import annotations

import json

from ..gen.data import h


_current = [None]      # the harness whose run is in progress (is_type_of functions live in the schema, not in a run)


def is_type_of_factory(type_name):
    def is_type_of(value, info):
        hz = _current[0]
        also = value.get('__also', ()) if isinstance(value, dict) else ()
        ok = isinstance(value, dict) and (value.get('__tn') == type_name or type_name in also)
        if hz is None or hz.sync_only:
            return ok
        plabel = json.dumps(info.path.as_list())
        label = plabel + '@is:' + type_name
        if also and hz._p('ovl', plabel) < 0.7:
            # a value that satisfies the checks of two possible types ("the first type that matches" decides): every check
            # of this value is awaitable, so the outcome must not depend on which of them completes first
            return hz._type(label, ok)
        mode = 'sync' if hz._p('type', label) >= hz.p_type_async else 'async'
        if also:
            seen = hz.overlap_modes.setdefault(plabel, set())
            seen.add(mode)
            if len(seen) > 1:
                hz.mixed_overlap = True
        if mode == 'sync':
            return ok
        return hz._type(label, ok)
    return is_type_of


def hide_typename(v, overlap=None):
    """Values without a __typename key, so that abstract types can only be resolved through is_type_of.
    overlap: None or a function value -> name of a second object type whose is_type_of the value satisfies as well (or None)."""
    if isinstance(v, dict) and '__typename' in v:
        v = dict(v)
        v['__tn'] = v.pop('__typename')
        other = overlap(v) if overlap else None
        if other and other != v['__tn']:
            v['__also'] = (other,)
        return v
    if isinstance(v, list):
        return [hide_typename(x, overlap) for x in v]
    if type(v).__name__ == 'FailingList':
        return type(v)(hide_typename(v.items, overlap), v.exc)
    return v


class Harness:
    def __init__(self, sched, value_fn, seed, p_async=0.5, p_item_async=0.2, p_iter=0.15, p_type_async=0.3, log=None, schema=None,
                 sync_only=False, hide_typename=False, overlap=None):
        self.hide = hide_typename
        self.overlap = overlap
        self.overlap_modes = {}
        self.mixed_overlap = False
        self.sched = sched
        self.value_fn = value_fn
        self.seed = seed
        self.p_async, self.p_item_async, self.p_iter, self.p_type_async = p_async, p_item_async, p_iter, p_type_async
        self.log = log if log is not None else []
        self.entered = set()        # labels of harness coroutines the executor has started
        self.exited = set()         # ... whose body has unwound
        self.iterators = []         # TrackedAsyncIterator instances handed out
        self.schema = schema
        self.sync_only = sync_only
        self.mode = {}             # label -> 'sync' | 'async' for every resolver call
        self.p_task = 0.0          # share of the awaitable resolver results handed over as an already running task
        self.calls = 0
        self.abort_at = None       # the n-th resolver invocation triggers the abort signal itself, synchronously
        self.abort_fn = None

    def _second_type(self, v):
        k = h(self.overlap, 'also', repr(v.get('__pk'))) % 8
        return ['User', 'Dog', 'Cat'][k] if k < 3 else None

    def _p(self, *key):
        return (h(self.seed, 'mode', *key) % 10000) / 10000.0

    # ---- field resolver
    def resolver(self, _source, info, **args):
        path = info.path.as_list()
        label = json.dumps(path)
        self.log.append(('invoke', tuple(path)))
        self.calls += 1
        if self.abort_at is not None and self.calls == self.abort_at and self.abort_fn is not None:
            self.abort_fn()

        def compute():
            v = self.value_fn(path, info.parent_type.name, info.field_name, args, info.return_type)
            return hide_typename(v, self._second_type if self.overlap is not None else None) if self.hide else v
        if self.sync_only or self._p('field', label) >= self.p_async:
            self.mode[label] = 'sync'
            try:
                v = compute()
            finally:
                self.log.append(('complete', tuple(path)))
            return self.wrap_list(v, label, path)
        self.mode[label] = 'async'
        if self.p_task and self._p('task', label) < self.p_task:
            # work that is already running when it is handed over (a data loader's task, loop.create_task(fetch()))
            import asyncio
            self.mode[label] = 'task'
            return asyncio.ensure_future(self._gated(label, path, compute))
        return self._gated(label, path, compute)

    async def _gated(self, label, path, compute):
        self.entered.add(label)
        self.log.append(('enter', tuple(path)))      # the resolver's asynchronous body starts running
        try:
            await self.sched.gate(label)
            v = compute()
            return self.wrap_list(v, label, path)
        finally:
            self.exited.add(label)
            self.log.append(('exit', tuple(path)))

    def wrap_list(self, v, label, path):
        """Lists may come back as plain lists, lists of awaitables, or async iterators."""
        if type(v).__name__ == 'FailingList':
            if self.sync_only or self.p_async == 0.0 or self._p('list', label) >= 0.5:
                return iter(v)
            it = TrackedAsyncIterator(self, label, v.items, fail_at=len(v.items), fail_exc=v.exc)
            self.iterators.append(it)
            self.mode[label + '@iter'] = 'async'
            return it
        if self.sync_only or not isinstance(v, list) or not v:
            return v
        k = self._p('list', label)
        if k < self.p_iter:
            it = TrackedAsyncIterator(self, label, v)
            self.iterators.append(it)
            self.mode[label + '@iter'] = 'async'
            return it
        if k < self.p_iter + self.p_item_async:
            out = []
            for i, x in enumerate(v):
                if self._p('item', label, i) < 0.6:
                    if self._p('settled', label, i) < 0.2 and getattr(self.sched, 'loop', None) is not None:
                        # an awaitable that has already settled when it is handed over (a data loader's cache hit), with a
                        # result or with a failure: it must be treated like any other awaitable item
                        fut = self.sched.loop.create_future()
                        if isinstance(x, Exception):
                            fut.set_exception(x)
                        else:
                            fut.set_result(x)
                        self.mode[f'{label}#{i}'] = 'settled'
                        out.append(fut)
                        continue
                    self.mode[f'{label}#{i}'] = 'async'
                    if self.p_task and self.mode.get(label) == 'sync' and self._p('task', label, i) < self.p_task:
                        # (only in lists a resolver returns synchronously: a list that an awaitable resolver produces may be
                        # discarded unseen when a stop lands in the same iteration, and the library cannot look inside it)
                        import asyncio
                        self.mode[f'{label}#{i}'] = 'task'
                        out.append(asyncio.ensure_future(self._item(x, f'{label}#{i}')))
                        continue
                    out.append(self._item(x, f'{label}#{i}'))
                else:
                    out.append(x)
            return out
        return v

    async def _item(self, x, label):
        self.entered.add(label)
        try:
            await self.sched.gate(label)
            if isinstance(x, Exception):
                raise x
            return x
        finally:
            self.exited.add(label)

    # ---- abstract type resolver
    def type_resolver(self, value, info, abstract_type):
        name = value.get('__typename') if isinstance(value, dict) else None
        path = info.path.as_list()
        label = json.dumps(path) + '@type'
        if self.sync_only or self._p('type', label) >= self.p_type_async:
            return name
        return self._type(label, name)

    async def _type(self, label, name):
        n = 1
        base = label
        while label in self.entered:
            n += 1
            label = f'{base}~{n}'
        self.entered.add(label)
        try:
            await self.sched.gate(label)
            return name
        finally:
            self.exited.add(label)

    def unfinished(self):
        """Harness coroutines the executor started whose body has not unwound yet."""
        return sorted(self.entered - self.exited)


class TrackedAsyncIterator:
    """An async iterator (class form) with counted life-cycle: started / exhausted / raised / aclose calls."""

    def __init__(self, harness, label, items, fail_at=None, fail_exc=None):
        self.h, self.label, self.items = harness, label, list(items)
        self.i = 0
        self.started = False
        self.exhausted = False
        self.raised = False
        self.aclose_calls = 0
        self.in_flight = 0
        self.fail_at, self.fail_exc = fail_at, fail_exc
        self.started_step = None

    def __aiter__(self):
        return self

    async def __anext__(self):
        if not self.started:
            self.started_step = self.h.sched.step
        self.started = True
        label = f'{self.label}@next#{self.i}'
        self.h.entered.add(label)
        self.in_flight += 1
        try:
            # a source may hand out several items without suspending in between (a buffered cursor, an async generator
            # over a list): only every `source_burst`-th item waits for the scheduler
            if self.i % getattr(self.h, 'source_burst', 1) == 0:
                await self.h.sched.gate(label)
            if self.fail_at is not None and self.i == self.fail_at:
                self.raised = True
                raise self.fail_exc
            if self.i >= len(self.items):
                self.exhausted = True
                raise StopAsyncIteration
            x = self.items[self.i]
            self.i += 1
            if isinstance(x, Exception):
                # an exception *instance* as list item is completed (raised) by the executor, per item
                return x
            return x
        finally:
            self.in_flight -= 1
            self.h.exited.add(label)

    async def aclose(self):
        self.aclose_calls += 1
        if getattr(self.h, 'slow_close', False) and self.h._p('slowclose', self.label) < 0.5 and self.aclose_calls == 1:
            # closing a source takes time (an "unsubscribe" round trip): whoever stops the execution is released, and the
            # work-finished hook fires, only after the close has completed
            label = f'{self.label}@aclose'
            self.h.entered.add(label)
            try:
                await self.h.sched.gate(label)
            finally:
                self.h.exited.add(label)

    def state(self):
        return {'label': self.label, 'started': self.started, 'exhausted': self.exhausted, 'raised': self.raised,
                'aclose_calls': self.aclose_calls, 'delivered': self.i}
