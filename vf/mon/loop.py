"""Controlled event loop and scheduler: schedule exploration in virtual time.

ControlledLoop is the real asyncio selector loop with one change: when nothing is
runnable and no timer is live, it asks the scheduler to perform ONE enabled action
(complete one awaitable a harness resolver/iterator handed to the executor, let the
consumer pull, fire the abort signal, ...).  Suspension therefore happens only where
the program can really suspend, and "nothing enabled while the driven coroutine is not
done" is a logical deadlock (Deadlock), never a wall-clock verdict.
"""
from __future__ import annotations

import asyncio
import gc
import warnings


class Deadlock(Exception):
    """The loop is idle, the driven coroutine is not done and no action is enabled."""


class ControlledLoop(asyncio.SelectorEventLoop):
    scheduler = None

    def _run_once(self):
        while not self._ready and not any(not h._cancelled for h in self._scheduled):
            sched = self.scheduler
            if sched is None or not sched.on_idle():
                raise Deadlock()
        super()._run_once()


class Scheduler:
    """Owns the enabled actions; policies: random / fifo / lifo / scripted (for DFS)."""

    def __init__(self, rng=None, policy='random', script=None, max_steps=5000):
        self.rng = rng
        self.policy = policy
        self.script = list(script or [])
        self.step = 0
        self.gates = {}          # label -> future (insertion ordered)
        self.externals = {}      # label -> callable() performing the action; removed when performed
        self.trace = []          # labels in the order performed
        self.branching = []      # number of enabled actions at each step (for DFS enumeration)
        self.frozen = False      # when frozen nothing is released (quiescence probing)
        self.freeze_gates = False  # after a stop action: outstanding awaitables are no longer completed
        self.max_steps = max_steps
        self.loop = None
        self.on_step = None      # optional callback(label) right before an action is performed
        self.p_double = 0.0      # probability that a second awaitable completes a few loop iterations after the chosen one

    # -- registration
    def gate(self, label):
        """A future the scheduler will complete later; await it where the program may suspend."""
        n = 1
        base = label
        while label in self.gates:
            n += 1
            label = f'{base}~{n}'
        fut = self.loop.create_future()
        self.gates[label] = fut
        return fut

    def external(self, label, fn):
        self.externals[label] = fn

    def enabled(self):
        # after a stop only the consumer's own steps ('pull#k') and the closing of sources (part of stopping) stay enabled,
        # never the executor's outstanding awaitables
        out = [('gate', l) for l, f in self.gates.items() if not f.done() and (not self.freeze_gates or l.startswith('pull#') or l.endswith('@aclose'))]
        out += [('ext', l) for l in self.externals]
        return out

    # -- called by the loop when idle
    def on_idle(self):
        if self.frozen:
            return False
        en = self.enabled()
        if not en or self.step >= self.max_steps:
            return False
        if self.step < len(self.script):
            i = self.script[self.step] % len(en)
        elif self.policy == 'fifo':
            i = 0
        elif self.policy == 'lifo':
            i = len(en) - 1
        elif self.policy == 'scripted':
            i = 0
        elif self.policy == 'burst':
            # the source produces a few items at once and is silent in between, work settles mostly in order of creation, the
            # consumer is either eager (pulls whenever it can) or lazy (pulls only when nothing else can move)
            b = getattr(self, '_burst', None)
            if b is None:
                b = self._burst = [self.rng.randint(1, 3)]

            def cls(l):
                return '@next' if '@next' in l else ('pull#' if l.startswith('pull#') else 'other')
            by = {}
            for k, (_, l) in enumerate(en):
                by.setdefault(cls(l), []).append(k)
            eager = getattr(self, '_eager', None)
            if eager is None:
                eager = self._eager = self.rng.random() < 0.6       # the consumer pulls as soon as it can / only when idle
            if eager and 'pull#' in by:
                i = by['pull#'][0]
                if self.step > 1:
                    b[0] = self.rng.choice([0, 0, 1, 2])
            elif b[0] > 0 and '@next' in by:
                b[0] -= 1
                i = by['@next'][0]
            elif 'other' in by:
                i = by['other'][0] if self.rng.random() < 0.7 else self.rng.choice(by['other'])     # mostly in order of creation
            elif 'pull#' in by:
                i = by['pull#'][0]
                b[0] = self.rng.choice([0, 0, 1, 2])
            else:
                i = self.rng.randrange(len(en))
        elif self.policy == 'phases':
            # bursty: for a few steps one class of actions (source steps, consumer pulls, everything else) is preferred or starved
            ph = getattr(self, '_phase', None)
            if ph is None or ph[2] <= 0:
                ph = self._phase = [self.rng.choice(['@next', 'pull#', 'other']), self.rng.random() < 0.5, self.rng.randint(1, 4)]
            ph[2] -= 1

            def cls(l):
                return '@next' if '@next' in l else ('pull#' if l.startswith('pull#') else 'other')
            preferred = [k for k, (_, l) in enumerate(en) if (cls(l) == ph[0]) != ph[1]]
            i = self.rng.choice(preferred) if preferred else self.rng.randrange(len(en))
        elif self.policy == 'source-first':
            # sources run as far ahead as they can, the consumer pulls next, resolvers of what was produced settle last
            # (oldest first): producers meet full buffers while the items they hold are still pending
            nxt = [k for k, (_, l) in enumerate(en) if '@next' in l]
            pulls = [k for k, (_, l) in enumerate(en) if l.startswith('pull#')]
            i = nxt[0] if nxt else (pulls[0] if pulls else 0)
        elif self.policy in ('slow-source', 'slow-consumer'):
            # biased random: a source iterator (resp. the consumer) only moves when nothing else can
            key = '@next' if self.policy == 'slow-source' else 'pull#'
            preferred = [k for k, (_, l) in enumerate(en) if key not in l]
            i = self.rng.choice(preferred) if preferred else self.rng.randrange(len(en))
        else:
            i = self.rng.randrange(len(en))
        self.branching.append(len(en))
        self.step += 1
        kind, label = en[i]
        self.trace.append(label)
        if self.on_step:
            self.on_step(label)
        if kind == 'gate':
            fut = self.gates.pop(label)
            if not fut.done():
                fut.set_result(None)
        else:
            fn = self.externals.pop(label)
            fn()
        if self.p_double and self.rng is not None and self.rng.random() < self.p_double:
            self._release_soon()
        return True

    def _release_soon(self):
        """Near-simultaneous completions: a second outstanding awaitable completes k loop iterations after the one just
        released (two I/O completions landing in the same or in adjacent iterations), i.e. while the program is still
        reacting to the first - an interleaving that one-action-per-idle-point scheduling cannot produce."""
        cands = [l for l, f in self.gates.items() if not f.done() and not l.startswith('pull#') and (not self.freeze_gates)]
        if not cands:
            return
        nxt = [l for l in cands if '@next' in l]
        # (a source step right behind a resolver's completion, or the other way round, is the pair worth favouring)
        label = self.rng.choice(nxt) if nxt and self.rng.random() < 0.5 else self.rng.choice(cands)
        k = self.rng.randint(0, 14)

        def later(n):
            if n > 0:
                self.loop.call_soon(later, n - 1)
                return
            fut = self.gates.get(label)
            if fut is None or fut.done() or self.frozen or self.freeze_gates:
                return
            self.gates.pop(label)
            self.step += 1
            self.trace.append(f'{label}+{k}')
            fut.set_result(None)
        self.loop.call_soon(later, k)


class Run:
    """One controlled execution: loop + scheduler + the asyncio 'sanitizer' monitors."""

    def __init__(self, scheduler):
        self.sched = scheduler
        self.loop = ControlledLoop()
        self.loop.scheduler = scheduler
        scheduler.loop = self.loop
        self.loop_reports = []      # messages from the loop exception handler
        self.warnings = []
        self.loop.set_exception_handler(lambda loop, ctx: self.loop_reports.append(ctx.get('message', '') + ' ' + repr(ctx.get('exception', ''))[:120]))
        self.deadlock = False
        self.result = None
        self.exception = None
        self.pending_after_quiescence = []

    def drive(self, coro_fn):
        """Run coro_fn() to completion under the scheduler.  Sets result / exception / deadlock."""
        asyncio.set_event_loop(self.loop)
        with warnings.catch_warnings(record=True) as w:
            warnings.simplefilter('always')
            main = self.loop.create_task(coro_fn())
            self.main = main
            try:
                self.result = self.loop.run_until_complete(main)
            except Deadlock:
                self.deadlock = True
            except BaseException as e:  # noqa: BLE001
                self.exception = e
            self.warnings_ctx = w
            return self

    def quiesce(self):
        """Drive the loop to true idleness WITHOUT releasing anything more; report tasks still pending."""
        self.sched.frozen = True
        with warnings.catch_warnings(record=True) as w:
            warnings.simplefilter('always')
            try:
                self.loop.run_until_complete(self.loop.create_future())
            except Deadlock:
                pass
            except BaseException:  # noqa: BLE001
                pass
            self.pending_after_quiescence = [t for t in asyncio.all_tasks(self.loop) if not t.done() and t is not getattr(self, 'main', None)]
            if self.deadlock and not self.main.done():
                pass
            self.warnings += [str(x.message)[:160] for x in w]
        return self.pending_after_quiescence

    def drain(self):
        """Let every still outstanding harness awaitable complete (FIFO) and drive the loop to idleness again."""
        self.sched.frozen = False
        self.sched.freeze_gates = False
        self.sched.policy = 'fifo'
        self.sched.script = []
        with warnings.catch_warnings(record=True) as w:
            warnings.simplefilter('always')
            try:
                self.loop.run_until_complete(self.loop.create_future())
            except Deadlock:
                pass
            except BaseException:  # noqa: BLE001
                pass
            self.warnings += [str(x.message)[:160] for x in w]
        return [t for t in asyncio.all_tasks(self.loop) if not t.done()]

    def close(self):
        """Cancel whatever is left, close the loop, collect garbage so destroy-time reports fire now."""
        with warnings.catch_warnings(record=True) as w:
            warnings.simplefilter('always')
            try:
                for t in asyncio.all_tasks(self.loop):
                    if not t.done():
                        t.cancel()
                self.sched.frozen = True
                try:
                    self.loop.run_until_complete(self.loop.create_future())
                except BaseException:  # noqa: BLE001
                    pass
                # release open gates so that abandoned coroutines can finish their finally blocks
                for f in list(self.sched.gates.values()):
                    if not f.done():
                        f.cancel()
                try:
                    self.loop.run_until_complete(self.loop.create_future())
                except BaseException:  # noqa: BLE001
                    pass
                self.loop.run_until_complete(self.loop.shutdown_asyncgens())
            except BaseException:  # noqa: BLE001
                pass
            finally:
                asyncio.set_event_loop(None)
                self.loop.close()
            gc.collect()
            self.warnings += [str(x.message)[:160] for x in w]
        self.warnings += [str(x.message)[:160] for x in getattr(self, 'warnings_ctx', [])]


def dfs_scripts(run_with_script, max_runs=5040):
    """Enumerate all choice sequences: run_with_script(script) -> branching list.  Yields each script run."""
    script = []
    runs = 0
    while runs < max_runs:
        branching = run_with_script(list(script))
        runs += 1
        # next script in lexicographic order
        full = list(script) + [0] * (len(branching) - len(script))
        i = len(branching) - 1
        while i >= 0 and full[i] + 1 >= branching[i]:
            i -= 1
        if i < 0:
            return runs, True
        script = full[:i] + [full[i] + 1]
    return runs, False


def selftest():
    """The idle callback fires and different orders are really produced."""
    import random
    orders = set()
    for seed in range(12):
        sch = Scheduler(random.Random(seed))
        run = Run(sch)
        out = []

        async def main():
            async def w(n):
                await sch.gate(n)
                out.append(n)
            await asyncio.gather(w('a'), w('b'), w('c'))
            return tuple(out)
        run.drive(main)
        assert not run.deadlock and run.exception is None, (run.deadlock, run.exception)
        orders.add(run.result)
        assert run.quiesce() == []
        run.close()
    assert len(orders) >= 3, orders
    # deadlock detection
    sch = Scheduler(random.Random(0))
    run = Run(sch)

    async def stuck():
        await asyncio.get_event_loop().create_future()
    run.drive(stuck)
    assert run.deadlock
    run.close()
    return True
