"""Worker process: runs one shard of a check and writes its observations as JSON."""
from __future__ import annotations

import hashlib
import importlib
import json
import os
import random
import sys
import time
import traceback

REPO_SRC = os.environ.get("VERIF_REPO_SRC", "/repo/src")


def h64(obj) -> int:
    """Stable 63-bit hash of any repr-able object (signatures of cases)."""
    if not isinstance(obj, (str, bytes)):
        obj = srepr(obj)
    if isinstance(obj, str):
        obj = obj.encode("utf-8", "surrogatepass")
    return int.from_bytes(hashlib.blake2b(obj, digest_size=8).digest(), "big") >> 1


def sanitize(o, depth=0):
    """Make any observation JSON-serialisable without tripping over hostile values."""
    if o is None or isinstance(o, (bool, str)):
        return o
    if isinstance(o, int):
        return o if -10**300 < o < 10**300 else f"<int {hex(o)[:40]}... {o.bit_length()} bits>"
    if isinstance(o, float):
        return o if o == o and abs(o) != float("inf") else f"<float {o!r}>"
    if depth > 12:
        return "<deep>"
    if isinstance(o, dict):
        return {(k if isinstance(k, str) else srepr(k)): sanitize(v, depth + 1) for k, v in o.items()}
    if isinstance(o, (list, tuple, set, frozenset)):
        return [sanitize(v, depth + 1) for v in o]
    return f"<{type(o).__name__} {srepr(o)[:120]}>"


def srepr(o):
    """repr() that cannot raise (ints beyond the str-digits limit, broken __repr__)."""
    try:
        return repr(o)
    except Exception:  # noqa: BLE001
        if isinstance(o, int):
            return hex(o)
        if isinstance(o, dict):
            return "{" + ", ".join(f"{srepr(k)}: {srepr(v)}" for k, v in o.items()) + "}"
        if isinstance(o, (list, tuple)):
            return "[" + ", ".join(srepr(v) for v in o) + "]"
        return f"<unreprable {type(o).__name__}>"


class Ctx:
    """What a check sees: seeded randomness, budgets, and the observation sinks."""

    MAX_VIOLATIONS_PER_MECHANISM = 3
    MAX_SAMPLES = 4

    def __init__(self, pid, tier, seed, shard, nshards, scale):
        self.pid, self.tier, self.seed, self.shard, self.nshards = pid, tier, seed, shard, nshards
        self.scale = scale
        self.rng = random.Random(h64(("shard", pid, seed, shard)))
        self.evaluations = 0
        self.sigs = set()
        self.samples = []
        self.counters = {}
        self.violations = []
        self.violation_counts = {}
        self.t0 = time.time()

    # -- budgets
    def n(self, quick, thorough):
        """Number of cases for THIS shard, given totals for each tier."""
        total = (thorough if self.tier == "thorough" else quick) * self.scale
        return max(1, int(total / self.nshards))

    def mine(self, i):
        """True if global case index i belongs to this shard (for enumerations)."""
        return i % self.nshards == self.shard

    def sub_rng(self, *key):
        return random.Random(h64(("case", self.pid, self.seed, self.shard) + key))

    def elapsed(self):
        return time.time() - self.t0

    # -- observations
    def case(self, n=1):
        self.evaluations += n

    def nontrivial(self, sig):
        self.sigs.add(sig if isinstance(sig, int) else h64(sig))

    def sample(self, obj, force=False):
        if force or len(self.samples) < self.MAX_SAMPLES:
            self.samples.append(sanitize(obj))

    def count(self, name, n=1):
        self.counters[name] = self.counters.get(name, 0) + n

    def label(self, name, value):
        s = self.counters.setdefault(name, set())
        if len(s) < 400:
            s.add(value)

    def violation(self, mechanism, detail, case):
        self.violation_counts[mechanism] = self.violation_counts.get(mechanism, 0) + 1
        if self.violation_counts[mechanism] <= self.MAX_VIOLATIONS_PER_MECHANISM:
            self.violations.append({"mechanism": mechanism, "detail": sanitize(detail), "case": sanitize(case)})

    def dump(self, path):
        counters = {k: (sorted(v) if isinstance(v, set) else v) for k, v in self.counters.items()}
        with open(path, "w") as f:
            json.dump({
                "evaluations": self.evaluations, "sigs": sorted(self.sigs), "samples": self.samples,
                "counters": counters, "violations": self.violations,
                "violation_counts": self.violation_counts, "wall": self.elapsed(), "reach": getattr(self, "reach", {}),
            }, f, default=repr)


# ---------------- reach accounting: which anchored lines did the workload execute? ----------------
_reach = {}


def anchor_files(pid):
    root = os.path.dirname(os.path.dirname(os.path.abspath(__file__)))
    files = []
    try:
        for line in open(os.path.join(root, "properties.jsonl")):
            p = json.loads(line)
            if p["id"] == pid:
                files = p["anchors"]["files"]
    except Exception:  # noqa: BLE001
        return {}
    out = {}
    base = os.path.dirname(REPO_SRC.rstrip("/"))
    for f in files:
        path = os.path.join(base, f)
        if os.path.isdir(path):
            for name in sorted(os.listdir(path)):
                if name.endswith(".py"):
                    out[os.path.realpath(os.path.join(path, name))] = f.rstrip("/") + "/" + name
        elif os.path.exists(path):
            out[os.path.realpath(path)] = f
    return out


def start_reach(pid):
    """sys.monitoring LINE events with DISABLE after the first hit of each line of the anchored files."""
    mon = getattr(sys, "monitoring", None)
    if mon is None or os.environ.get("VERIF_NO_REACH"):
        return None
    files = anchor_files(pid)
    if not files:
        return None
    tool = mon.COVERAGE_ID
    try:
        mon.use_tool_id(tool, "vf-reach")
    except ValueError:
        return None
    hits = {f: set() for f in files}
    disable = mon.DISABLE

    def on_line(code, line):
        s = hits.get(code.co_filename)
        if s is not None:
            s.add(line)
        return disable
    mon.register_callback(tool, mon.events.LINE, on_line)
    mon.set_events(tool, mon.events.LINE)
    return files, hits


def executable_lines(path):
    try:
        code = compile(open(path, encoding="utf-8").read(), path, "exec")
    except Exception:  # noqa: BLE001
        return set()
    lines = set()
    todo = [code]
    while todo:
        c = todo.pop()
        if c.co_flags & 0x1:  # CO_OPTIMIZED: function bodies only (module and class bodies run at import, before monitoring)
            lines.update(l for _, _, l in c.co_lines() if l and l != c.co_firstlineno)  # the def line fires no LINE event
        todo.extend(k for k in c.co_consts if hasattr(k, "co_lines"))
    return lines


def reach_report(state):
    if not state:
        return {}
    files, hits = state
    out = {}
    for path, rel in files.items():
        ex = executable_lines(path)
        out[rel] = {"lines_hit": sorted(hits[path] & ex) if ex else sorted(hits[path]), "executable": len(ex)}
    return out


def main():
    pid, tier, seed, shard, nshards, out, scale = sys.argv[1:8]
    sys.path.insert(0, REPO_SRC)
    sys.setrecursionlimit(max(sys.getrecursionlimit(), 1000))
    mod = importlib.import_module(f"vf.checks.{pid.lower()}")
    ctx = Ctx(pid, tier, int(seed), int(shard), int(nshards), float(scale))
    reach = start_reach(pid)
    try:
        mod.run_shard(ctx)
    except BaseException:  # a crash of the harness itself is a broken shard, not a verdict
        traceback.print_exc()
        sys.exit(70)
    ctx.reach = reach_report(reach)
    ctx.dump(out)


if __name__ == "__main__":
    main()
