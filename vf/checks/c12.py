"""C12 - validation is a deterministic, compositional function of document and schema."""
from __future__ import annotations

import collections
import random

from graphql import GraphQLError, GraphQLSyntaxError, parse, print_ast, print_schema, validate
from graphql.validation import specified_rules

from ..gen import docmut, src
from ..gen.doc import DocGen, directive_argument_soup, oneof_literal_soup
from ..gen.schemas import rich_inc as rich
from ..mon.astutil import plain
from ..ref import lexer as R1
from .c02 import generated_schema

LEVEL = "exploration"
LEVEL_TEXT = ("Generated valid documents, AST-level near-valid mutants (22 named edits) and grammar-random documents over the schema's vocabulary are "
              "validated by the real validate() under all rules, random subsets/orders and every rule alone; algebraic laws judge each run: union of "
              "single-rule results, invariance of messages under reprint / ignored-character rewrites / added descriptions / no_location parsing, "
              "determinism of two consecutive runs, untouched document and schema, and the max_errors prefix law for n in {0,1,2,5}.")
LEVEL_NOTE = "laws need no model; trusted: the multiset comparison of (message, locations), structural snapshots of the document, print_schema snapshot of the schema"
TECHNIQUE = "runtime monitoring: algebraic/metamorphic laws (rule-union, reprint/layout/description invariance, determinism, max_errors prefix) over generated documents"
RULE = ("schema: the rich fixed schema (4/5) or one of 4000 generated valid schemas (1/5); type-system documents (grammar-random over a small name pool, concatenations of two G-schema documents, "
        "each alone and as an extension of a generated schema) under validate_sdl with the specified SDL rules: union, subset/order, determinism, reprint and no_location laws; "
        "executable documents: type-directed valid ones, one or two AST mutations of them (rename, alias collision, argument/variable/fragment/directive edits, cycles, duplicates), "
        "grammar-random ones over the schema vocabulary; each parsed with and without locations; rule sets: all specified rules, random subsets and orders, singletons. "
        "Non-trivial: the document produces >= 1 validation error; distinct = distinct (document text, rule set).")
ASSUMPTIONS = ["errors are compared as multisets of (message, locations); across reprint/layout changes, of messages only",
               "max_errors is set to 10000 for the union law so truncation cannot interfere"]
REQUIRED_COUNTERS = ["union_laws_checked", "reprint_laws_checked", "layout_laws_checked", "description_laws_checked",
                     "determinism_checked", "history_laws_checked", "max_errors_laws_checked", "documents_with_errors", "sdl_union_laws_checked", "sdl_documents_with_errors"]

BIG = 10000


def sig(errors, with_loc=True):
    if with_loc:
        return collections.Counter((e.message, tuple(tuple(l) for l in e.locations or ())) for e in errors)
    return collections.Counter(e.message for e in errors)


def run_validate(ctx, schema, doc, rules, case, max_errors=BIG):
    try:
        return validate(schema, doc, rules, max_errors=max_errors)
    except Exception as e:  # noqa: BLE001
        ctx.violation(f"validate-crash:{type(e).__name__}", {"source": case["source"][:400], "exception": repr(e)[:300],
                                                             "rules": [r.__name__ for r in rules] if rules else None}, case)
        return None


def diff(a, b):
    def show(k):
        return [k] if isinstance(k, str) else list(map(str, k))
    return {"only_first": [show(k) for k in (a - b)][:4], "only_second": [show(k) for k in (b - a)][:4]}


def check_doc(ctx, schema, text, rng, origin, schema_snapshot, schema_index=None):
    case = {"source": text, "origin": origin, "seed": rng.getrandbits(32), "schema": schema_index}
    r = random.Random(case["seed"])
    try:
        doc = parse(text)
    except GraphQLSyntaxError:
        ctx.count("unparseable_documents")
        return
    ctx.case()
    snap = plain(doc, with_loc=True)
    rules_all = list(specified_rules)
    full = run_validate(ctx, schema, doc, None, case)
    if full is None:
        return
    full_sig = sig(full)
    if full:
        ctx.count("documents_with_errors")
    ctx.label("origins", origin)
    # determinism (ordered)
    again = run_validate(ctx, schema, doc, None, case)
    ctx.count("determinism_checked")
    if again is None or [(e.message, e.locations) for e in again] != [(e.message, e.locations) for e in full]:
        ctx.violation("nondeterministic", {"source": text[:400], "first": [e.message for e in full][:5],
                                          "second": [e.message for e in again or []][:5]}, case)
        return
    # union of single rules == all rules; also for a random subset in random order
    singles = {}
    for rule in rules_all:
        res = run_validate(ctx, schema, doc, [rule], case)
        if res is None:
            return
        singles[rule] = sig(res)
    ctx.count("union_laws_checked")
    union = sum(singles.values(), collections.Counter())
    if union != full_sig:
        rulesdiff = [r_.__name__ for r_ in rules_all if any(k in (full_sig - union) or k in (union - full_sig) for k in singles[r_])]
        ctx.violation("union-law:all-rules", {"source": text[:400], **diff(full_sig, union), "rules_involved": rulesdiff[:4]}, case)
        return
    subset = r.sample(rules_all, r.randint(1, len(rules_all)))
    sub = run_validate(ctx, schema, doc, subset, case)
    if sub is None:
        return
    ctx.count("union_laws_checked")
    expect = sum((singles[x] for x in subset), collections.Counter())
    if sig(sub) != expect:
        ctx.violation("union-law:subset-or-order", {"source": text[:400], "rules": [x.__name__ for x in subset], **diff(sig(sub), expect)}, case)
        return
    # neither document nor schema modified
    if plain(doc, with_loc=True) != snap:
        ctx.violation("document-modified", {"source": text[:400]}, case)
        return
    if print_schema(schema) != schema_snapshot:
        ctx.violation("schema-modified", {"source": text[:400]}, case)
        return
    msgs = sig(full, False)
    # reprint
    try:
        printed = print_ast(doc)
        doc2 = parse(printed)
    except Exception:  # noqa: BLE001  (C08's business)
        doc2 = None
    if doc2 is not None:
        ctx.count("reprint_laws_checked")
        res = run_validate(ctx, schema, doc2, None, case)
        if res is not None and sig(res, False) != msgs:
            ctx.violation("reprint-changes-messages", {"source": text[:400], "printed": printed[:400], **diff(msgs, sig(res, False))}, case)
            return
    # parsed without locations
    doc3 = parse(text, no_location=True)
    res = run_validate(ctx, schema, doc3, None, case)
    ctx.count("no_location_laws_checked")
    if res is not None and sig(res, False) != msgs:
        ctx.violation("no-location-changes-messages", {"source": text[:400], **diff(msgs, sig(res, False))}, case)
        return
    # ignored-character rewrite (at R1 token boundaries)
    try:
        toks = R1.significant(R1.lex(text))
    except R1.LexError:
        toks = []
    if toks:
        out = []
        pos = 0
        for t in toks:
            out.append(text[pos:t[1]])
            if r.random() < 0.3:
                out.append(src.ignored(r) or ' ')
            pos = t[1]
        out.append(text[pos:])
        t2 = ''.join(out)
        try:
            doc4 = parse(t2)
        except GraphQLSyntaxError:
            doc4 = None
        if doc4 is not None:
            ctx.count("layout_laws_checked")
            res = run_validate(ctx, schema, doc4, None, case)
            if res is not None and sig(res, False) != msgs:
                ctx.violation("layout-changes-messages", {"source": text[:400], "rewritten": t2[:400], **diff(msgs, sig(res, False))}, case)
                return
    # descriptions
    try:
        doc5 = parse(print_ast(docmut.add_descriptions(doc)))
    except Exception:  # noqa: BLE001
        doc5 = None
    if doc5 is not None:
        ctx.count("description_laws_checked")
        res = run_validate(ctx, schema, doc5, None, case)
        if res is not None and sig(res, False) != msgs:
            ctx.violation("descriptions-change-messages", {"source": text[:400], **diff(msgs, sig(res, False))}, case)
            return
    # max_errors
    unlimited = full
    for n in (0, 1, 2, 5):
        lim = run_validate(ctx, schema, doc, None, case, max_errors=n)
        if lim is None:
            return
        ctx.count("max_errors_laws_checked")
        ok = True
        if len(unlimited) <= n:
            ok = [(e.message, e.locations) for e in lim] == [(e.message, e.locations) for e in unlimited]
        else:
            ok = (len(lim) == n + 1 and "error limit reached" in lim[-1].message
                  and [(e.message, e.locations) for e in lim[:n]] == [(e.message, e.locations) for e in unlimited[:n]])
        if not ok:
            ctx.violation("max-errors-law", {"source": text[:400], "n": n, "unlimited": len(unlimited), "limited": [e.message for e in lim][:8]}, case)
            return
    if full:
        ctx.nontrivial((text, 'all'))


def check_sdl(ctx, text, rng, base_sdl, origin):
    """The same laws for type-system documents under validate_sdl (specified_sdl_rules), alone or as an extension."""
    from graphql import build_schema
    from graphql.validation.specified_rules import specified_sdl_rules
    from graphql.validation.validate import validate_sdl
    case = {"kind": "sdl", "source": text, "base_sdl": base_sdl, "origin": origin, "seed": rng.getrandbits(32)}
    r = random.Random(case["seed"])
    try:
        doc = parse(text)
        base = build_schema(base_sdl) if base_sdl else None
    except Exception:  # noqa: BLE001
        ctx.count("unparseable_documents")
        return
    ctx.case()
    ctx.label("origins", origin)

    def run(d, rules=None):
        try:
            return validate_sdl(d, base, rules)
        except Exception as e:  # noqa: BLE001
            ctx.violation(f"validate-sdl-crash:{type(e).__name__}", {"source": text[:400], "exception": repr(e)[:300],
                                                                      "rules": [x.__name__ for x in rules] if rules else None}, case)
            return None
    snap = plain(doc, with_loc=True)
    full = run(doc)
    if full is None:
        return
    if full:
        ctx.count("sdl_documents_with_errors")
    again = run(doc)
    ctx.count("determinism_checked")
    if again is None or [(e.message, e.locations) for e in again] != [(e.message, e.locations) for e in full]:
        ctx.violation("nondeterministic:sdl", {"source": text[:400], "first": [e.message for e in full][:5]}, case)
        return
    rules_all = list(specified_sdl_rules)
    singles = {}
    for rule in rules_all:
        res = run(doc, [rule])
        if res is None:
            return
        singles[rule] = sig(res)
    ctx.count("union_laws_checked")
    ctx.count("sdl_union_laws_checked")
    union = sum(singles.values(), collections.Counter())
    if union != sig(full):
        ctx.violation("union-law:all-sdl-rules", {"source": text[:400], **diff(sig(full), union)}, case)
        return
    subset = r.sample(rules_all, r.randint(1, len(rules_all)))
    sub = run(doc, subset)
    if sub is None:
        return
    if sig(sub) != sum((singles[x] for x in subset), collections.Counter()):
        ctx.violation("union-law:sdl-subset-or-order", {"source": text[:400], "rules": [x.__name__ for x in subset]}, case)
        return
    if plain(doc, with_loc=True) != snap:
        ctx.violation("document-modified:sdl", {"source": text[:400]}, case)
        return
    msgs = sig(full, False)
    try:
        doc2 = parse(print_ast(doc))
    except Exception:  # noqa: BLE001
        doc2 = None
    if doc2 is not None:
        ctx.count("reprint_laws_checked")
        res = run(doc2)
        if res is not None and sig(res, False) != msgs:
            ctx.violation("reprint-changes-messages:sdl", {"source": text[:400], **diff(msgs, sig(res, False))}, case)
            return
    res = run(parse(text, no_location=True))
    if res is not None and sig(res, False) != msgs:
        ctx.violation("no-location-changes-messages:sdl", {"source": text[:400], **diff(msgs, sig(res, False))}, case)
        return
    if full:
        ctx.nontrivial((text, base_sdl or '', 'sdl'))


def sdl_case(ctx, rng, k):
    from ..gen.schema import SchemaGen, render_sdl
    pool = ['Query', 'A', 'B', 'I', 'U', 'E', 'In', 'Int', 'String', 'f', 'g', 'x', 'ID', 'Mutation', 'S', 'dir', 'deprecated']
    mode = k % 4
    base_sdl = None
    if mode == 0:
        text, origin = src.gen_source(rng, 'sdl', names=pool, max_depth=2, hostile=0.0, style='plain'), "G-src sdl"
    elif mode == 1:
        a = render_sdl(SchemaGen(random.Random(rng.getrandbits(30)), adversarial=0.0).model())
        b = render_sdl(SchemaGen(random.Random(rng.getrandbits(30)), adversarial=0.0).model())
        text, origin = a + '\n' + b, "two G-schema documents concatenated"      # clashing names of every kind
    elif mode == 2:
        base_sdl = render_sdl(SchemaGen(random.Random(rng.getrandbits(30)), adversarial=0.0).model())
        text, origin = src.gen_source(rng, 'sdl', names=pool, max_depth=2, hostile=0.0, style='plain'), "G-src sdl as extension of a G-schema schema"
    else:
        base_sdl = render_sdl(SchemaGen(random.Random(rng.getrandbits(30)), adversarial=0.0).model())
        text = render_sdl(SchemaGen(random.Random(rng.getrandbits(30)), adversarial=0.0).model())
        origin = "G-schema document as extension of another"
    check_sdl(ctx, text, rng, base_sdl, origin)


def definition_history(ctx, schema, rng):
    """A document may define directives / types of its own (known within that document only).  Validating such a
    document, or extending the schema by it, must not change what later documents are told about the same names."""
    from graphql import extend_schema
    root = schema.query_type.name
    for name in ('foo', 'F1', 'onField', 'cached', 'skipIf', 'Thing', 'Extra', 'deferred'):
        user = rng.choice([f'{{ __typename @{name} }}', f'{{ ... @{name}(if: true) {{ __typename }} }}',
                           f'query ($v: {name}) {{ __typename }}', f'{{ ... on {name} {{ __typename }} }}',
                           f'{{ __typename @{name} ... on {name} {{ __typename }} }}'])
        definer = rng.choice([f'directive @{name}(if: Boolean) on FIELD | INLINE_FRAGMENT {{ __typename }}',
                              f'type {name} {{ a: Int }} {{ __typename }}', f'scalar {name} directive @{name} on FIELD query {{ __typename }}',
                              f'input {name} {{ a: Int }} directive @{name}(if: Boolean) repeatable on FIELD | INLINE_FRAGMENT'])
        case = {"source": user, "origin": "definition-history", "seed": 0, "schema": None, "definer": definer}
        try:
            before = sig(validate(schema, parse(user), None, max_errors=BIG))
            validate(schema, parse(definer), None, max_errors=BIG)
            if 'query' not in definer and '{ __typename }' not in definer:
                try:
                    extend_schema(schema, parse(definer))
                except Exception:  # noqa: BLE001
                    pass
            after = sig(validate(schema, parse(user), None, max_errors=BIG))
        except Exception as e:  # noqa: BLE001
            ctx.violation(f"validate-crash:{type(e).__name__}", {"source": user, "exception": repr(e)[:300], "rules": None}, case)
            continue
        ctx.case()
        ctx.count("history_laws_checked")
        ctx.count("definition_histories_checked")
        if before != after:
            ctx.violation("history-changes-messages", {"source": user, "validated_in_between": [definer], **diff(before, after)}, case)
            return
        if before:
            ctx.nontrivial((user, definer))


def run_shard(ctx):
    definition_history(ctx, rich(), ctx.rng)
    for k in range(ctx.n(1600, 50000)):
        sdl_case(ctx, ctx.rng, k)
    # every executable directive at every kind of position of every operation type, well- and ill-typed arguments
    inc = rich()
    inc_snapshot = print_schema(inc)
    for i, text in enumerate(directive_argument_soup(inc) + oneof_literal_soup()):
        if ctx.mine(i):
            ctx.count("directive_argument_documents")
            check_doc(ctx, inc, text, ctx.rng, "directive-argument soup", inc_snapshot)
    schema = rich()
    snapshot = print_schema(schema)
    vocab = docmut.vocabulary(schema)
    rng = ctx.rng
    rich_schema, rich_snapshot, rich_vocab = schema, snapshot, vocab
    gen_cache = {}
    history = {}
    for k in range(ctx.n(4500, 150000)):
        mode = rng.random()
        schema, snapshot, vocab, sidx = rich_schema, rich_snapshot, rich_vocab, None
        if k % 5 == 4:
            # a generated schema (G-schema) instead of the fixed one
            sidx = rng.randrange(4000)
            if sidx not in gen_cache:
                while len(gen_cache) >= 48:
                    dropped = next(iter(gen_cache))
                    gen_cache.pop(dropped)
                    history.pop(dropped, None)
                gs = generated_schema(sidx)
                gen_cache[sidx] = None if gs is None else (gs, print_schema(gs), docmut.vocabulary(gs))
            if gen_cache[sidx] is None:
                continue
            schema, snapshot, vocab = gen_cache[sidx]
            ctx.count("documents_on_generated_schemas")
        if mode < 0.25:
            g = DocGen(schema, rng, ops=('query', 'mutation', 'subscription'), p_defer=0.1, p_stream=0.1)
            text, origin = g.gen(), "G-doc"
        elif mode < 0.75:
            g = DocGen(schema, rng, ops=('query', 'mutation', 'subscription'), p_defer=0.1, p_stream=0.1)
            text = g.gen()
            origin = "G-doc+mut"
            try:
                tree = parse(text, no_location=True)
                names = []
                for _ in range(rng.randint(1, 2)):
                    t2, name = docmut.mutate_doc(rng, tree, vocab)
                    if t2 is not None:
                        tree = t2
                        names.append(name)
                text = print_ast(tree)
                origin = "G-doc+" + "+".join(names) if names else "G-doc"
            except GraphQLError:
                pass
        else:
            # (a fifth of these mix type-system definitions in: an executable document may define directives / types of its own)
            text = src.gen_source(rng, 'document' if rng.random() < 0.2 else 'exec',
                                  names=vocab[:40] + ['F1', 'F2', 'v0', 'v1', 'if', 'skip', 'include', 'defer', 'stream'], max_depth=3,
                                  hostile=0.05, style='plain')
            origin = "G-src over schema vocabulary"
        check_doc(ctx, schema, text, rng, origin.split('+')[0] if origin.startswith('G-src') else origin, snapshot, sidx)
        # history: what validation says about a document must not depend on which documents were validated before it
        # against the same schema object
        hist = history.setdefault(sidx, [])
        if len(hist) >= 6:
            old_text, old_sig = hist.pop(rng.randrange(len(hist)))
            try:
                again = validate(schema, parse(old_text), None, max_errors=BIG)
            except Exception as e:  # noqa: BLE001
                again = None
                ctx.violation(f"validate-crash:{type(e).__name__}", {"source": old_text[:400], "exception": repr(e)[:300], "rules": None},
                              {"source": old_text, "origin": "history", "seed": 0, "schema": sidx})
            if again is not None:
                ctx.count("history_laws_checked")
                if sig(again) != old_sig:
                    ctx.violation("history-changes-messages", {"source": old_text[:400], "validated_in_between": [t[:120] for t, _ in hist[-3:]] + [text[:120]],
                                                              **diff(old_sig, sig(again))},
                                  {"source": old_text, "origin": "history", "seed": 0, "schema": sidx, "history": [t for t, _ in hist] + [text]})
        try:
            hist.append((text, sig(validate(schema, parse(text), None, max_errors=BIG))))
        except Exception:  # noqa: BLE001
            pass
        if k % 1499 == 0:
            ctx.sample({"origin": origin, "source": text[:400]})


def replay(ctx, case):
    if case.get("kind") == "sdl":
        class _S(random.Random):
            def getrandbits(self, k):
                return case["seed"]
        check_sdl(ctx, case["source"], _S(0), case.get("base_sdl"), case.get("origin", "replay"))
        return
    schema = rich() if case.get("schema") is None else generated_schema(case["schema"])

    class _R(random.Random):
        def getrandbits(self, k):
            return case["seed"]
    check_doc(ctx, schema, case["source"], _R(0), case.get("origin", "replay"), print_schema(schema))
