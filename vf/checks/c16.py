"""C16 - leaf results are serialised within the specification's value domains."""
from __future__ import annotations

import enum
import json
import math

from graphql import (GraphQLBoolean, GraphQLEnumType, GraphQLError, GraphQLField, GraphQLFloat, GraphQLID, GraphQLInt,
                     GraphQLList, GraphQLNonNull, GraphQLObjectType, GraphQLSchema, GraphQLString, execute_sync, parse)
from graphql.pyutils import Undefined

from ..gen import values
from ..worker import srepr

LEVEL = "exploration"
LEVEL_TEXT = ("Every value of a hostile Python value universe (plus random draws from it nested in lists) is returned by a resolver for a field of each built-in "
              "scalar and of generated enum types and observed twice: through T.coerce_output_value and through ExecutionResult.data of the real executor. "
              "A domain predicate written from the spec judges every emitted value (32-bit int, finite number, text, boolean, enum name; JSON-serialisable; "
              "exact for integer-typed inputs) and the emitted value is fed back to the same type's input coercion.")
LEVEL_NOTE = ("trusted: the domain predicate in this file; decimal strings converting to the nearest double are not counted as silent integer precision loss "
              "(only int / integral float inputs are held to exactness); str subclasses are text")
TECHNIQUE = "runtime monitoring: domain predicate + output->input round trip on values observed at coerce_output_value and at ExecutionResult.data"
RULE = ("values: the whole G-val universe (about 130 hand-picked hostile values: bools, ints to 10^5000, int subclasses, IntEnum, floats incl. -0.0/nan/inf/subnormal/2^53+1, numeric-"
        "looking / empty / whitespace / non-ASCII-digit strings, bytes, containers, objects with __str__, Undefined) x {Int, Float, String, Boolean, ID} x generated enums "
        "(duplicate, unhashable, None values; Python Enum classes in the three names_as_values modes) x {direct call, plain field, non-null field, list item}; plus random "
        "numeric neighbours of the 32-bit and 2^53 boundaries as int, float and decimal string. Non-trivial: the type emitted a value (not an error); distinct = (type, repr(value), route).")
ASSUMPTIONS = ["a non-GraphQLError exception out of coerce_output_value counts as 'field error' when called directly (execution turns it into one), and is counted separately"]
REQUIRED_COUNTERS = ["direct_coercions_observed", "execution_results_observed", "emitted_values_domain_checked", "round_trips_checked", "errors_observed"]

SCALARS = [GraphQLInt, GraphQLFloat, GraphQLString, GraphQLBoolean, GraphQLID]


class Py(enum.Enum):
    A = 1
    B = 'two'
    C = (3,)


class Rec:
    """An unhashable record (defines __eq__, so no __hash__); every instance prints alike in messages."""

    def __init__(self, a, b):
        self.a, self.b = a, b

    def __eq__(self, other):
        return isinstance(other, Rec) and (self.a, self.b) == (other.a, other.b)

    __hash__ = None


LONG_A = list(range(14))
LONG_B = list(range(6)) + [99] + list(range(7, 14))          # differs from LONG_A only in the middle
DEEP_A = {'a': {'b': {'c': {'d': 1}}}}
DEEP_B = {'a': {'b': {'c': {'d': 2}}}}                        # differs only below the depth at which messages cut off


def make_enums():
    out = []
    # unhashable internal values that look alike when printed (long lists, deep containers, records): result coercion has to
    # compare them by value, whatever it printed or remembered about an earlier look-alike
    out.append(('lookalike', GraphQLEnumType('ELook', {'LA': LONG_A, 'DA': DEEP_A, 'R1': Rec(1, [1]), 'R2': Rec(2, [2]), 'LB': LONG_B})))
    out.append(('plain', GraphQLEnumType('EPlain', {'RED': 0, 'GREEN': 1, 'BLUE': 'b', 'ONE': 1})))
    out.append(('valueless', GraphQLEnumType('ENone', {'X': None, 'Y': None, 'Z': 'X'})))
    out.append(('unhashable', GraphQLEnumType('EUnh', {'L': [1], 'D': {'a': 1}, 'U': values.Unhashable(), 'S': 's'})))
    out.append(('py_values', GraphQLEnumType('EPyV', Py)))
    out.append(('py_names', GraphQLEnumType('EPyN', Py, names_as_values=True)))
    out.append(('py_members', GraphQLEnumType('EPyM', Py, names_as_values=None)))
    out.append(('floaty', GraphQLEnumType('EFl', {'NAN': float('nan'), 'ZERO': 0.0, 'T': True, 'E': ''})))
    return out


ENUM_EXTRA = [list(LONG_A), dict(DEEP_A), Rec(1, [1]), Rec(2, [2]), list(LONG_B), DEEP_B, Rec(3, [3]), list(range(5)) + [7] * 4 + list(range(9, 14)),
              Rec(1, [1]), list(LONG_A), DEEP_B, 0, 1, 'b', 'RED', 'X', 'Z', None, [1], {'a': 1}, values.Unhashable(), Py.A, Py.B, Py.C, 'A', 'two', (3,), 1.0, True, False, 0.0, '', float('nan'),
              'NAN', -0.0, 2, 'GREEN', 's']

_state = {}


def setup():
    if _state:
        return _state
    enums = make_enums()
    leafs = [(t.name, t) for t in SCALARS] + [(t.name, t) for _, t in enums]
    fields = {}
    for name, t in leafs:
        fields[f'p_{name}'] = GraphQLField(t)
        fields[f'n_{name}'] = GraphQLField(GraphQLNonNull(t))
        fields[f'l_{name}'] = GraphQLField(GraphQLList(t))
    q = GraphQLObjectType('Query', fields)
    _state['schema'] = GraphQLSchema(q)
    _state['leafs'] = leafs
    _state['docs'] = {name: parse('{ p_%s n_%s l_%s }' % (name, name, name)) for name, _ in leafs}
    return _state


def in_domain(t, out):
    n = t.name
    if n == 'Int':
        return isinstance(out, int) and not isinstance(out, bool) and -2**31 <= out < 2**31
    if n == 'Float':
        return isinstance(out, (int, float)) and not isinstance(out, bool) and math.isfinite(out)
    if n in ('String', 'ID'):
        return isinstance(out, str)
    if n == 'Boolean':
        return isinstance(out, bool)
    return isinstance(out, str) and out in t.values


def integer_typed(v):
    if isinstance(v, bool):
        return False
    if isinstance(v, int):
        return True
    return isinstance(v, float) and math.isfinite(v) and v == int(v)


def judge(ctx, t, v, out, route, case):
    """An emitted value `out` for resolver value `v`."""
    ctx.count("emitted_values_domain_checked")
    base = {"type": t.name, "value": srepr(v)[:200], "emitted": srepr(out)[:200], "route": route}
    if not in_domain(t, out):
        kind = "non-finite" if isinstance(out, float) and not math.isfinite(out) else ("out-of-range" if isinstance(out, int) and not isinstance(out, bool) and t.name == 'Int' else "wrong-type")
        ctx.violation(f"domain:{t.name if t in SCALARS else 'enum'}:{kind}", base, case)
        return
    try:
        json.dumps(out, allow_nan=False)
    except Exception as e:  # noqa: BLE001
        ctx.violation("not-json-serialisable", {**base, "exception": repr(e)[:100]}, case)
        return
    if t.name in ('Int', 'Float') and integer_typed(v):
        exact = int(v) if isinstance(v, float) else v
        if out != exact or (isinstance(out, float) and int(out) != exact):
            ctx.violation("silent-integer-precision-loss", base, case)
            return
    if t.name in ('String', 'ID') and isinstance(v, int) and not isinstance(v, bool):
        try:
            if out != str(int(v)):
                ctx.violation("integer-text-mismatch", base, case)
                return
        except ValueError:
            pass
    # accepted back by the same type's input coercion with the same meaning
    ctx.count("round_trips_checked")
    try:
        back = t.coerce_input_value(out)
    except Exception as e:  # noqa: BLE001
        ctx.violation("emitted-value-rejected-by-input-coercion", {**base, "exception": str(e)[:160]}, case)
        return
    if t in SCALARS:
        if back != out or isinstance(back, bool) != isinstance(out, bool):
            ctx.violation("round-trip-changes-meaning", {**base, "back": srepr(back)[:100]}, case)
    else:
        ev = t.values[out].value
        same = False
        try:
            same = (back == v) or back is v or (back != back and v != v)
        except Exception:  # noqa: BLE001
            same = False
        if not same and (ev is None or ev is Undefined) and v == out:
            same = True
        if not same:
            ctx.violation("round-trip-changes-meaning", {**base, "back": srepr(back)[:100]}, case)
    ctx.nontrivial((t.name, srepr(v), route))


def one_value(ctx, st, name, t, v):
    case = {"type": name, "value": v}
    null_like = v is None or v is Undefined      # the executor completes both as null before any leaf coercion
    # direct
    ctx.count("direct_coercions_observed")
    try:
        out = t.coerce_output_value(v)
    except GraphQLError:
        ctx.count("errors_observed")
        direct = ('error',)
    except Exception as e:  # noqa: BLE001
        ctx.count("errors_observed")
        ctx.count("direct_call_non_graphql_exceptions")
        ctx.label("direct_call_exception_types", type(e).__name__)
        direct = ('error',)
    else:
        direct = ('value', out)
        judge(ctx, t, v, out, "direct", case)
    # through execution: plain field, non-null field, list item
    root = {f'p_{name}': v, f'n_{name}': v, f'l_{name}': [v, v]}
    try:
        res = execute_sync(st['schema'], st['docs'][name], None, field_resolver=lambda _src, info: root[info.field_name])
    except Exception as e:  # noqa: BLE001
        ctx.violation(f"execution-raises:{type(e).__name__}", {"type": name, "value": srepr(v)[:200], "exception": repr(e)[:200]}, case)
        return
    ctx.count("execution_results_observed")
    err_paths = {tuple(e.path) for e in res.errors or [] if e.path}
    data = res.data
    if data is None:
        if direct[0] == 'value' and not null_like:
            ctx.violation("execution-disagrees-with-direct-coercion", {"type": name, "value": srepr(v)[:200], "direct": srepr(direct)[:100],
                                                                       "errors": [e.message[:100] for e in res.errors or []][:2]}, case)
        return
    for route, got, path in (("field", data.get(f'p_{name}'), (f'p_{name}',)), ("non-null-field", data.get(f'n_{name}'), (f'n_{name}',)),
                             ("list-item", (data.get(f'l_{name}') or [None])[0], (f'l_{name}', 0))):
        errored = path in err_paths
        if null_like and got is None and not errored:
            continue
        if null_like and errored:
            continue
        if errored:
            ctx.count("errors_observed")
            if direct[0] == 'value':
                ctx.violation("execution-disagrees-with-direct-coercion", {"type": name, "value": srepr(v)[:200], "route": route, "direct": srepr(direct)[:100]}, case)
            continue
        if got is None and not null_like:
            if direct[0] == 'value':
                ctx.violation("null-without-error", {"type": name, "value": srepr(v)[:200], "route": route}, case)
            elif path[0].startswith('l_') and (f'l_{name}',) in err_paths:
                pass
            elif not any(p[:len(path)] == path or path[:len(p)] == p for p in err_paths):
                ctx.violation("null-without-error", {"type": name, "value": srepr(v)[:200], "route": route}, case)
            continue
        judge(ctx, t, v, got, route, case)
        if direct[0] == 'value' and (got != direct[1] or type(got) is not type(direct[1])) and not (got != got and direct[1] != direct[1]):
            ctx.violation("execution-disagrees-with-direct-coercion", {"type": name, "value": srepr(v)[:200], "route": route,
                                                                       "direct": srepr(direct[1])[:100], "in_data": srepr(got)[:100]}, case)


def neighbours(rng):
    base = rng.choice([2**31, -2**31, 2**32, 2**53, -2**53, 2**63, 0, 10**15, 2**24, 10**22])
    n = base + rng.randint(-3, 3)
    k = rng.random()
    if k < 0.3:
        return n
    if k < 0.55:
        return float(n)
    if k < 0.8:
        return str(n)
    if k < 0.9:
        return str(float(n))
    return n + rng.choice([0.5, 0.25, 1e-9])


def run_shard(ctx):
    st = setup()
    rng = ctx.rng
    universe = values.ALL + ENUM_EXTRA
    i = 0
    for name, t in st['leafs']:
        for v in universe:
            i += 1
            if not ctx.mine(i):
                continue
            ctx.case()
            one_value(ctx, st, name, t, v)
            if i % 211 == 0:
                ctx.sample({"type": name, "value": srepr(v)[:100]})
    for k in range(ctx.n(150000, 2500000)):
        name, t = st['leafs'][rng.randrange(len(st['leafs']))]
        v = neighbours(rng) if rng.random() < 0.7 else rng.choice(universe)
        ctx.case()
        one_value(ctx, st, name, t, v)


def replay(ctx, case):
    st = setup()
    t = dict(st['leafs'])[case["type"]]
    one_value(ctx, st, case["type"], t, case["value"])
