"""C08 - print -> parse is the identity on trees; print is a fixed point."""
from __future__ import annotations

import itertools

from graphql import GraphQLSyntaxError, parse, print_ast
from graphql.language import (ArgumentNode, DocumentNode, FieldNode, NameNode, OperationDefinitionNode, OperationType,
                              ScalarTypeDefinitionNode, SelectionSetNode, StringValueNode, parse_const_value,
                              parse_schema_coordinate, parse_type, parse_value)

from ..gen import src
from ..mon.astutil import first_diff, plain, rebuild, walk
from ..ref import lexer as R

LEVEL = "exploration"
LEVEL_TEXT = ("Grammar-generated documents, values, types and schema coordinates (both experimental syntaxes), programmatic trees whose "
              "string values are replaced by arbitrary strings, and every short string over a 16-symbol hostile alphabet (quoted and block form) "
              "are printed, re-parsed and re-printed by the real printer/parser; the law parse(print(t)) == t and print(parse(print(t))) == print(t) "
              "judges every run. Exhaustive only on the short-string sub-space.")
LEVEL_NOTE = "trusted: structural node comparison (all dataclass fields except loc); R1's BlockStringValue decides which values may be carried by a block=True node"
TECHNIQUE = "runtime monitoring: round-trip law (print/parse identity, print fixed point) over generated, programmatic and enumerated trees"
RULE = ("(A) sources from the grammar-directed generator (documents of all flavours, values, const values, types, schema coordinates; experimental "
        "flags on/off) are parsed, printed, re-parsed (same flags) and re-printed; (B) the parsed trees are rebuilt through the node constructors with "
        "every StringValueNode given a fresh arbitrary string (block=True only for values in the image of the spec's BlockStringValue); "
        "(C) every string up to length 3 (quick) / 4 (thorough) over {a space LF CR TAB \" \\ VT FF FS U+0085 U+2028 U+2029 # BOM U+1F600} as quoted value, "
        "block value (when in the image), description and argument. Non-trivial: the tree contains a string value with a character outside "
        "[a-zA-Z0-9 ] or has >= 8 nodes; distinct = distinct printed text.")
ASSUMPTIONS = ["lone surrogates are not source characters and are not generated as string values",
               "a block=True node is only built with a value v such that BlockStringValue(v) == v and v has no CR (otherwise no block string denotes it)"]
REQUIRED_COUNTERS = ["roundtrips_checked", "programmatic_trees_checked", "enumerated_strings_checked", "block_strings_roundtripped"]

ALPHA = ['a', ' ', '\n', '\r', '\t', '"', '\\', '\x0b', '\x0c', '\x1c', '\x85', chr(0x2028), chr(0x2029), '#', '\ufeff', '\U0001f600']
NONSPEC = set('\x0b\x0c\x1c\x1d\x1e\x85') | {chr(0x2028), chr(0x2029)}


def in_block_image(v):
    return '\r' not in v and R.block_string_value(v.split('\n')) == v


def parser_for(kind, flags):
    if kind == 'document':
        return lambda s: parse(s, **flags)
    return {'value': parse_value, 'const_value': parse_const_value, 'type': parse_type,
            'coordinate': parse_schema_coordinate}[kind]


def string_mech(t1, t2):
    """Classify a difference between two trees by looking at their string values."""
    s1 = [n for n in walk(t1) if isinstance(n, StringValueNode)]
    s2 = [n for n in walk(t2) if isinstance(n, StringValueNode)]
    if len(s1) == len(s2):
        for a, b in zip(s1, s2):
            if a.value != b.value or bool(a.block) != bool(b.block):
                if a.block:
                    return "block-string:" + ("non-spec-line-separator" if any(c in NONSPEC for c in a.value) else "other")
                return "quoted-string"
    return "structure"


def roundtrip(ctx, tree, kind, flags, case, counter="roundtrips_checked"):
    ctx.count(counter)
    reparse = parser_for(kind, flags)
    try:
        p1 = print_ast(tree)
    except Exception as e:  # noqa: BLE001
        ctx.violation(f"print-crash:{type(e).__name__}", {"exception": repr(e)[:300], **case}, case)
        return None
    try:
        t2 = reparse(p1)
    except GraphQLSyntaxError as e:
        ctx.violation("printed-text-does-not-parse", {"printed": p1, "error": e.message, **case}, case)
        return p1
    except Exception as e:  # noqa: BLE001
        ctx.violation(f"reparse-crash:{type(e).__name__}", {"printed": p1, "exception": repr(e)[:300]}, case)
        return p1
    a, b = plain(tree), plain(t2)
    if a != b:
        ctx.violation("roundtrip-differs:" + string_mech(tree, t2), {"printed": p1, "diff": first_diff(a, b), **case}, case)
        return p1
    try:
        p2 = print_ast(t2)
    except Exception as e:  # noqa: BLE001
        ctx.violation(f"print-crash:{type(e).__name__}", {"printed": p1, "exception": repr(e)[:300]}, case)
        return p1
    if p2 != p1:
        ctx.violation("print-not-fixed-point", {"first": p1, "second": p2}, case)
    for n in walk(tree):
        if isinstance(n, StringValueNode) and n.block:
            ctx.count("block_strings_roundtripped")
    return p1


def nontrivial_tree(tree):
    n = 0
    for x in walk(tree):
        n += 1
        if isinstance(x, StringValueNode) and any(not (c.isalnum() and c.isascii() or c == ' ') for c in x.value):
            return True
    return n >= 8


def fresh_string(rng):
    v = src.string_value(rng, maxlen=10, hostile=0.6)
    return v


def make_programmatic(rng, tree):
    def fn(n):
        if isinstance(n, StringValueNode):
            v = fresh_string(rng)
            block = False
            if rng.random() < 0.5:
                # try to make a block-string value: normalise through the spec algorithm
                v2 = R.block_string_value(v.replace('\r\n', '\n').replace('\r', '\n').split('\n'))
                if in_block_image(v2):
                    v, block = v2, True
            return StringValueNode(value=v, block=block)
        return None
    return rebuild(tree, fn)


def gen_cases(ctx, rng, n):
    for k in range(n):
        kind = rng.choice(['document', 'document', 'document', 'value', 'const_value', 'type', 'coordinate'])
        flags = {}
        fa = dd = False
        if kind == 'document':
            fa, dd = rng.random() < 0.3, rng.random() < 0.3
            if fa:
                flags["experimental_fragment_arguments"] = True
            if dd:
                flags["experimental_directives_on_directive_definitions"] = True
        s = src.gen_source(rng, kind, frag_args=fa, dir_on_dir=dd, hostile=0.5)
        case = {"kind": kind, "flags": flags, "source": s}
        ctx.case()
        try:
            tree = parser_for(kind, flags)(s)
        except GraphQLSyntaxError:
            ctx.count("generated_source_rejected")
            continue
        except Exception:  # noqa: BLE001  (C01's business)
            continue
        p = roundtrip(ctx, tree, kind, flags, case)
        if p is not None and nontrivial_tree(tree):
            ctx.nontrivial(p)
        if kind != 'coordinate':
            t2 = make_programmatic(rng, tree)
            case2 = {"kind": kind, "flags": flags, "source": s, "programmatic": True,
                     "strings": [(x.value, bool(x.block)) for x in walk(t2) if isinstance(x, StringValueNode)]}
            p2 = roundtrip(ctx, t2, kind, flags, case2, "programmatic_trees_checked")
            if p2 is not None and nontrivial_tree(t2):
                ctx.nontrivial(p2)
        if k % 1201 == 0:
            ctx.sample({"part": "A/B", "kind": kind, "flags": flags, "source": s[:240], "printed": (p or '')[:240]})


def name(v):
    return NameNode(value=v)


def string_trees(v, block):
    sv = StringValueNode(value=v, block=block)
    yield 'value', sv
    field = FieldNode(name=name('f'), arguments=(ArgumentNode(name=name('a'), value=sv),))
    yield 'document', DocumentNode(definitions=(OperationDefinitionNode(
        operation=OperationType.QUERY, selection_set=SelectionSetNode(selections=(field,))),))
    yield 'document', DocumentNode(definitions=(ScalarTypeDefinitionNode(description=sv, name=name('S')),))


def enum_cases(ctx):
    maxlen = 4 if ctx.tier == "thorough" else 3
    i = 0
    for L in range(maxlen + 1):
        for tup in itertools.product(ALPHA, repeat=L):
            i += 1
            if not ctx.mine(i):
                continue
            v = ''.join(tup)
            forms = [False] + ([True] if in_block_image(v) else [])
            for block in forms:
                ctx.case()
                ctx.count("enumerated_strings_checked")
                for kind, tree in string_trees(v, block):
                    case = {"kind": kind, "flags": {}, "string": v, "block": block}
                    p = roundtrip(ctx, tree, kind, {}, case, "roundtrips_checked")
                if v and p is not None:
                    ctx.nontrivial((v, block))
            if i % 9973 == 0:
                ctx.sample({"part": "C", "string": v, "block_forms": forms})


ADJACENT_DEFS = ['type T', 'type T @d', 'type T implements I', 'type T { f: Int }', 'extend type T @d', 'extend type T implements I', 'interface I',
                 'extend interface I @d', 'input In', 'input In @d', 'extend input In @d', 'enum E', 'extend enum E @d', 'union U', 'union U @d',
                 'extend union U @d', 'scalar S', 'scalar S @d', 'extend scalar S @d', 'extend schema @d', 'schema @d { query: Q }',
                 'extend schema @d { mutation: M }', 'directive @d on FIELD', 'directive @d repeatable on FIELD | QUERY', '"desc" type T',
                 'fragment F on T { x }', 'query Named { x }', '{ x }']
ADJACENT_OPS = ['query { x }', '{ x }', 'query { query: Q }', 'query { mutation: M x }', 'query Q { x }', 'mutation { x }', 'subscription { x }',
                'query @d { x }', 'query ($v: Int) { x }', '"desc" query { x }', 'query { ... on T { x } }', 'query { f: Int }']


def adjacency_cases(ctx):
    """A definition that may or may not be continued by a block in braces, followed by an operation whose keyword the printer
    may or may not drop: every pair, both orders of what matters (what precedes an anonymous query decides its short form)."""
    i = 0
    for d in ADJACENT_DEFS:
        for op in ADJACENT_OPS:
            for text in (f'{d} {op}', f'{d}\n{op}\n{d}', f'{op} {d} {op}'):
                i += 1
                if not ctx.mine(i):
                    continue
                try:
                    tree = parse(text, experimental_directives_on_directive_definitions=False)
                except GraphQLSyntaxError:
                    ctx.count("adjacency_cases_not_parseable")
                    continue
                ctx.case()
                roundtrip(ctx, tree, 'document', {}, {"kind": "document", "source": text, "origin": "adjacent definitions"}, counter="adjacency_roundtrips_checked")


def run_shard(ctx):
    enum_cases(ctx)
    adjacency_cases(ctx)
    gen_cases(ctx, ctx.rng, ctx.n(40000, 700000))


def replay(ctx, case):
    import random
    if "string" in case:
        for kind, tree in string_trees(case["string"], case["block"]):
            roundtrip(ctx, tree, kind, {}, case)
        return
    kind, flags = case["kind"], case.get("flags", {})
    tree = parser_for(kind, flags)(case["source"])
    if case.get("programmatic"):
        it = iter(case["strings"])

        def fn(n):
            if isinstance(n, StringValueNode):
                v, b = next(it)
                return StringValueNode(value=v, block=b)
            return None
        tree = rebuild(tree, fn)
    roundtrip(ctx, tree, kind, flags, case)
