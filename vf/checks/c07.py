"""C07 - a subscription maps source events to responses one-to-one and in order."""
from __future__ import annotations

import copy
import json
import random

from graphql import ExecutionResult, GraphQLError, is_list_type, is_non_null_type, parse, subscribe, validate
from graphql.language import OperationDefinitionNode

from ..gen.data import h, make_value
from ..gen.doc import DocGen
from ..gen.schemas import rich, rich_inc
from ..mon.aharness import Harness
from ..mon.loop import Run, Scheduler
from ..ref.executor import Ref

LEVEL = "exploration"
LEVEL_TEXT = ("Generated subscription documents are run through the real subscribe() on the controlled loop with harness source iterators (a quarter of them iterables that are not their own iterator): event sequences of "
              "length 0..8 (payloads incl. None and ones whose data faults cause field errors and non-null propagation), source failures at every position, "
              "source-creation failures of every kind (subscribe resolver raises / returns a non-iterable / returns an error instance, sync and awaitable), "
              "and consumer stops; emission, consumer pulls and per-event resolver completions are all scheduler gates. Every response is compared with an "
              "independent specification executor (R3) run on that event as root value; counts, order, end of stream, surfacing of the source exception and "
              "the life cycle of the source are checked; all responses are held and re-compared at the end of the stream.")
LEVEL_NOTE = "trusted: R3, controlled loop; per-event data is unique (values carry the event number), so swapped, duplicated or dropped responses are visible"
TECHNIQUE = "runtime monitoring with schedule control: differential oracle (specification executor per event) + stream life-cycle monitors over generated event histories"
RULE = ("subscriptions from G-doc over the rich schema (userEvents / ticks / namedEvents with arguments, fragments, @skip/@include); event count 0..8; per case one of: normal end, "
        "source raises at position k, consumer closes after k responses, source creation fails (6 kinds); fault rate in {0, .12}; 3 schedules each. "
        "Non-trivial: >= 2 events were mapped; distinct = (document, event scenario, interleaving).")
ASSUMPTIONS = ["events are executed one at a time, in source order (the library awaits each response before pulling the next event)"]
REQUIRED_COUNTERS = ["streams_run", "responses_compared_with_R3", "source_failures_checked", "creation_failures_checked", "end_of_stream_checked", "responses_rechecked_at_end"]


class CleanupError(Exception):
    pass


class EventRecord(Exception):
    """A payload object that derives from Exception (e.g. an error notification delivered as an event)."""

    def __init__(self, i):
        super().__init__(f'event {i}')
        self.ev = i


class StopIterationLike(KeyError):
    def __init__(self, i):
        super().__init__(i)
        self.ev = i


class SourceError(Exception):
    pass


class EventSource:
    """Harness source event stream: gated emission, life-cycle counters."""

    def __init__(self, sched, events, fail_at=None, aclose_fails=False):
        self.sched, self.events, self.fail_at = sched, list(events), fail_at
        self.aclose_fails = aclose_fails
        self.i = 0
        self.started = False
        self.exhausted = False
        self.raised = False
        self.aclose_calls = 0
        self.current = None

    def __aiter__(self):
        return self

    async def __anext__(self):
        self.started = True
        await self.sched.gate(f'emit#{self.i}')
        if self.fail_at is not None and self.i == self.fail_at:
            self.raised = True
            raise SourceError(f'source failed at {self.i}')
        if self.i >= len(self.events):
            self.exhausted = True
            raise StopAsyncIteration
        ev = self.events[self.i]
        self.current = self.i
        self.i += 1
        return ev

    async def aclose(self):
        self.aclose_calls += 1
        if self.aclose_fails and (self.raised or self.exhausted):
            # e.g. a dropped connection that cannot send "unsubscribe" any more: a failing clean-up of a source that is
            # already dead must not replace what the consumer is owed (the source's own exception / the normal end)
            raise CleanupError('cannot unsubscribe')


class EventIterable:
    """An async iterable that is not its own iterator (a channel / topic object: every __aiter__ call hands out the
    subscription's iterator; only that iterator can be closed)."""

    def __init__(self, source):
        self.source = source
        self.aiter_calls = 0

    def __aiter__(self):
        self.aiter_calls += 1
        if self.aiter_calls > 1:
            return _Consumed()      # a single-consumer channel: the events went to the first iterator
        return self.source


class _Consumed:
    def __aiter__(self):
        return self

    async def __anext__(self):
        raise StopAsyncIteration


def event_value_fn(schema, seed, ev, fault):
    base = make_value(schema, h(seed, 'event', ev) % (2**31), fault)

    def mark(v, t):
        if is_non_null_type(t):
            t = t.of_type
        if is_list_type(t):
            return [mark(x, t.of_type) for x in v] if isinstance(v, list) else v
        if isinstance(v, str) and t.name in ('String', 'ID'):
            return f'e{ev}:{v}'
        return v

    def value(path, parent_type_name, field_name, args, return_type):
        return mark(base(path, parent_type_name, field_name, args, return_type), return_type)
    return value


class SubHarness(Harness):
    """Per-event data: the data function of the event currently being mapped."""

    def __init__(self, sched, seed, schema, fault, p_async, source_ref):
        super().__init__(sched, None, seed, p_async=p_async, p_iter=0.0, p_item_async=0.15 if p_async else 0.0, p_type_async=0.3 if p_async else 0.0, schema=schema)
        self.fault = fault
        self.source_ref = source_ref
        self.fns = {}
        self.wrong_root = []

    def fn_for(self, ev):
        if ev not in self.fns:
            self.fns[ev] = event_value_fn(self.schema, self.seed_base, ev, self.fault)
        return self.fns[ev]

    def resolver(self, _source, info, **args):
        ev = self.source_ref['source'].current
        # "with that event as root value": what a resolver is told about the root value must be the event being mapped
        src = self.source_ref['source']
        # (a root field is resolved right when its event is mapped; deeper resolvers may belong to an earlier event whose
        # abandoned siblings settle in the background, so for them any event emitted so far is acceptable)
        if ev is not None and 0 <= ev < len(src.events):
            if len(info.path.as_list()) == 1:
                if info.root_value is not src.events[ev] or _source is not src.events[ev]:
                    self.wrong_root.append((ev, repr(info.root_value)[:60], list(info.path.as_list())))
            elif not any(info.root_value is e for e in src.events[:ev + 1]):
                self.wrong_root.append((ev, repr(info.root_value)[:60], list(info.path.as_list())))
        self.value_fn = self.fn_for(ev)
        return super().resolver(_source, info, **args)


def run_stream(schema, doc, variables, seed, scenario, sched_seed, p_async, policy, fault):
    """scenario: {'events': n, 'fail_at': k|None, 'close_after': k|None, 'creation': kind|None, 'payloads': [...]}"""
    rng = random.Random(sched_seed)
    sched = Scheduler(rng, policy=policy)
    run = Run(sched)
    src_ref = {}
    hz = SubHarness(sched, sched_seed, schema, fault, p_async, src_ref)
    hz.seed_base = seed
    source = EventSource(sched, scenario['payloads'], scenario.get('fail_at'), scenario.get('aclose_fails', False))
    src_ref['source'] = source
    handed_out = EventIterable(source) if scenario.get('separate_iterator') else source
    out = {'kind': None, 'responses': [], 'snapshots': [], 'raised': None, 'ended': False, 'raised_after': None, 'result': None, 'closed_by_consumer': False}
    creation = scenario.get('creation')

    def subscribe_resolver(_root, _info, **_args):
        if creation == 'raise':
            raise SourceError('cannot create source')
        if creation == 'return-error':
            return SourceError('returned error instance')
        if creation == 'not-iterable':
            return 'not an async iterable'
        if creation == 'none':
            return None
        if creation in ('await-raise', 'await-not-iterable', 'await-ok'):
            async def later():
                await sched.gate('create')
                if creation == 'await-raise':
                    raise SourceError('cannot create source (async)')
                if creation == 'await-not-iterable':
                    return 42
                return handed_out
            return later()
        return handed_out

    async def main():
        try:
            res = subscribe(schema, doc, None, variable_values=variables, field_resolver=hz.resolver, type_resolver=hz.type_resolver,
                            subscribe_field_resolver=subscribe_resolver)
            if hasattr(res, '__await__'):
                res = await res
        except BaseException as e:  # noqa: BLE001
            out['kind'], out['raised'] = 'subscribe-raised', e
            return out
        if isinstance(res, ExecutionResult):
            out['kind'], out['result'] = 'result', res
            return out
        out['kind'] = 'stream'
        k = 0
        while True:
            if scenario.get('close_after') is not None and k == scenario['close_after']:
                out['closed_by_consumer'] = True
                await res.aclose()
                return out
            await sched.gate(f'pull#{k}')
            try:
                r = await anext(res)
            except StopAsyncIteration:
                out['ended'] = True
                break
            except BaseException as e:  # noqa: BLE001
                out['raised'], out['raised_after'] = e, k
                break
            out['responses'].append(r)
            out['snapshots'].append(json.dumps(r.formatted, default=repr, sort_keys=True))
            k += 1
            if k > 40:
                break
        if out['ended'] or out['raised'] is not None:
            try:
                extra = await anext(res)
                out['extra'] = extra
            except StopAsyncIteration:
                pass
            except BaseException as e:  # noqa: BLE001
                out['extra_exc'] = e
        return out
    run.drive(main)
    return run, sched, hz, source, out


def root_response_key(doc):
    """Response key of the single root field of the (first) subscription operation, looking through fragments."""
    frags = {d.name.value: d for d in doc.definitions if d.kind == 'fragment_definition'}
    op = next((d for d in doc.definitions if isinstance(d, OperationDefinitionNode)), None)

    def first(ss, depth=0):
        for sel in ss.selections:
            if sel.kind == 'field':
                return (sel.alias or sel.name).value
            inner = sel.selection_set if sel.kind == 'inline_fragment' else getattr(frags.get(sel.name.value), 'selection_set', None)
            if inner is not None and depth < 8:
                k = first(inner, depth + 1)
                if k is not None:
                    return k
        return None
    return first(op.selection_set) if op is not None else None


def judge(ctx, schema, doc, src, variables, seed, scenario, fault, run, sched, hz, source, out, case):
    base = {"source": src[:500], "scenario": {k: v for k, v in scenario.items() if k != 'payloads'}, "trace": sched.trace[-10:]}
    ctx.count("streams_run")
    if run.deadlock:
        ctx.violation("logical-deadlock", {**base, "open": [l for l, f in sched.gates.items() if not f.done()][:4]}, case)
        return
    if run.exception is not None or out['kind'] == 'subscribe-raised':
        e = run.exception or out['raised']
        ctx.violation(f"subscribe-raises:{type(e).__name__}", {**base, "exception": repr(e)[:200]}, case)
        return
    creation = scenario.get('creation')
    if creation and creation != 'await-ok':
        ctx.count("creation_failures_checked")
        r = out['result']
        if out['kind'] != 'result' or r.data is not None or not r.errors or len(r.errors) != 1:
            ctx.violation("creation-failure-not-a-single-errors-only-result", {**base, "kind": out['kind'], "result": None if r is None else json.dumps(r.formatted, default=repr)[:300]}, case)
        elif source.started:
            ctx.violation("source-started-although-creation-failed", base, case)
        else:
            # the error belongs to the root field: its path, if any, is that field's response key
            key = root_response_key(doc)
            path = r.errors[0].path
            if path is not None and key is not None and list(path) != [key]:
                ctx.violation("creation-failure-error-path", {**base, "path": list(path), "root_response_key": key}, case)
        return
    if out['kind'] != 'stream':
        ctx.violation("no-response-stream", {**base, "result": json.dumps(out['result'].formatted, default=repr)[:300] if out['result'] else None}, case)
        return
    if hz.wrong_root:
        ctx.violation("resolver-sees-another-root-value", {**base, "event": hz.wrong_root[0][0], "seen": hz.wrong_root[0][1], "at": hz.wrong_root[0][2]}, case)
        return
    ctx.count("root_values_seen_by_resolvers_checked")
    n = len(scenario['payloads'])
    fail_at = scenario.get('fail_at')
    close_after = scenario.get('close_after')
    expected_n = n if fail_at is None else min(fail_at, n)
    if close_after is not None:
        expected_n = min(expected_n, close_after)
    # one response per event, in order, each equal to R3 on that event
    op = next(d for d in doc.definitions if isinstance(d, OperationDefinitionNode))
    for i, r in enumerate(out['responses']):
        if i >= n:
            break
        vf = event_value_fn(schema, seed, i, fault)
        ref = Ref(schema, doc, vf, variables, root_value={'__typename': schema.subscription_type.name, '__pk': ()}).run(op)
        ctx.count("responses_compared_with_R3")
        if ref.get('request_error'):
            continue
        if json.dumps(r.data, sort_keys=True) != json.dumps(ref['data'], sort_keys=True):
            # which event does it equal, if any?
            other = None
            for j in range(n):
                if j != i:
                    rj = Ref(schema, doc, event_value_fn(schema, seed, j, fault), variables, root_value={'__typename': 'S', '__pk': ()}).run(op)
                    if json.dumps(r.data, sort_keys=True) == json.dumps(rj['data'], sort_keys=True):
                        other = j
                        break
            ctx.violation("response-differs-from-event-execution" + (":belongs-to-another-event" if other is not None else ""),
                          {**base, "response_index": i, "equals_event": other, "got": json.dumps(r.data)[:300], "R3": json.dumps(ref['data'])[:300]}, case)
            return
        ep = sorted(json.dumps(e.path) for e in r.errors or [])
        rp = sorted(json.dumps(p) for p in ref['error_paths'])
        if case.get("p_async") == 0.0:
            # fully synchronous resolvers: the error set is determined
            if ep != rp:
                ctx.violation("response-errors-differ", {**base, "response_index": i, "got": ep[:5], "R3": rp[:5]}, case)
                return
        else:
            # with awaitable resolvers a sibling's error may be recorded before the position is nulled: only well-formedness
            from .c03 import well_formed
            wf = well_formed(r)
            if wf or bool(ep) != bool(rp):
                ctx.violation("response-errors-ill-formed", {**base, "response_index": i, "problem": wf, "got": ep[:5], "R3": rp[:5]}, case)
                return
    if len(out['responses']) != expected_n:
        ctx.violation("response-count:" + ("too-few" if len(out['responses']) < expected_n else "too-many"),
                      {**base, "events": n, "expected_responses": expected_n, "got": len(out['responses']), "ended": out['ended'], "raised": repr(out['raised'])[:100]}, case)
        return
    if close_after is None:
        if fail_at is not None and fail_at <= n:
            ctx.count("source_failures_checked")
            if not isinstance(out['raised'], SourceError) or out['raised_after'] != fail_at:
                ctx.violation("source-exception-not-surfaced-in-place", {**base, "raised": repr(out['raised'])[:100], "after": out['raised_after'], "ended": out['ended']}, case)
                return
        else:
            ctx.count("end_of_stream_checked")
            if not out['ended'] or out['raised'] is not None:
                ctx.violation("stream-does-not-end-with-the-source", {**base, "ended": out['ended'], "raised": repr(out['raised'])[:100]}, case)
                return
        if 'extra' in out:
            ctx.violation("response-after-end-of-stream", base, case)
            return
    # responses held by the consumer must not change afterwards
    for i, r in enumerate(out['responses']):
        ctx.count("responses_rechecked_at_end")
        if json.dumps(r.formatted, default=repr, sort_keys=True) != out['snapshots'][i]:
            ctx.violation("delivered-response-mutated-later", {**base, "response_index": i, "at_delivery": out['snapshots'][i][:300],
                                                              "now": json.dumps(r.formatted, default=repr, sort_keys=True)[:300]}, case)
            return
    # life cycle of the source; leaks
    run.quiesce()
    pending = run.drain()
    if pending:
        ctx.violation("task-still-pending-at-quiescence", {**base, "tasks": [repr(t)[:120] for t in pending][:3]}, case)
        return
    if source.aclose_calls > 1:
        ctx.violation("source-closed-twice", {**base, "aclose_calls": source.aclose_calls}, case)
        return
    if source.started and not (source.exhausted or source.raised or source.aclose_calls == 1):
        ctx.violation("source-not-closed", {**base, "state": {"i": source.i, "aclose": source.aclose_calls}}, case)
        return
    if len(out['responses']) >= 2:
        ctx.nontrivial((src, json.dumps(base["scenario"], sort_keys=True), tuple(sched.trace)))


def check_case(ctx, seed, k):
    schema = rich_inc()      # with the experimental directives: a subscription may carry them switched off (if: false)
    rng = random.Random(seed)
    g = DocGen(schema, rng, ops=('subscription',), max_depth=3, p_defer=0.15, p_stream=0.25)
    src = g.gen('subscription')
    try:
        doc = parse(src)
    except GraphQLError:
        return
    if validate(schema, doc):
        ctx.count("rejected_by_validate")
        return
    variables = g.variables()
    fault = [0.0, 0.12][seed % 2]
    n = rng.choice([0, 1, 2, 3, 3, 5, 8])
    # whatever the source emits is an event: records, None, falsy scalars, lists, and objects that happen to derive from
    # Exception (an error-notification record is still a payload, not a failure of the source)
    payloads = [rng.choice([{'ev': i}, None, 0, '', {'ev': i}, EventRecord(i), [i], False, StopIterationLike(i)]) for i in range(n)]
    kind = rng.random()
    scenario = {'events': n, 'payloads': payloads}
    if kind < 0.25:
        scenario['fail_at'] = rng.randint(0, n)
    elif kind < 0.4:
        scenario['close_after'] = rng.randint(0, n)
    elif kind < 0.6:
        scenario['creation'] = rng.choice(['raise', 'return-error', 'not-iterable', 'none', 'await-raise', 'await-not-iterable', 'await-ok'])
    if rng.random() < 0.25:
        scenario['separate_iterator'] = True
        ctx.count("scenarios_with_a_source_that_is_not_its_own_iterator")
    if 'creation' not in scenario and rng.random() < 0.3:
        scenario['aclose_fails'] = True
        ctx.count("scenarios_with_failing_source_cleanup")
    case = {"seed": seed, "source": src, "variables": variables}
    for j in range(3):
        ctx.case()
        run, sched, hz, source, out = run_stream(schema, doc, variables, seed, scenario, seed * 10 + j, [0.0, 0.5, 1.0][j], ['fifo', 'random', 'lifo'][j], fault)
        try:
            judge(ctx, schema, doc, src, variables, seed, scenario, fault, run, sched, hz, source, out, {**case, "schedule": j, "p_async": [0.0, 0.5, 1.0][j]})
        finally:
            run.close()
    ctx.label("scenarios", ('creation:' + scenario['creation']) if scenario.get('creation') else ('fail' if 'fail_at' in scenario else ('close' if 'close_after' in scenario else 'normal')))
    if k % 199 == 0:
        ctx.sample({"source": src[:400], "scenario": {kk: v for kk, v in scenario.items()}})


def run_shard(ctx):
    from ..mon import loop
    loop.selftest()
    base = ctx.seed * 23_000_009 + ctx.shard * 1_000_171
    for k in range(ctx.n(5000, 80000)):
        check_case(ctx, base + k, k)


def replay(ctx, case):
    check_case(ctx, case["seed"], 1)
