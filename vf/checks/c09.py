"""C09 - ignored tokens are ignored; the lexer equals the lexical grammar (R1)."""
from __future__ import annotations

import itertools

from graphql import GraphQLSyntaxError, parse
from graphql.language.parser import Parser
from graphql.utilities import strip_ignored_characters

from ..gen import mut, src
from ..mon.astutil import first_diff, plain
from ..mon.lexreal import real_tokens
from ..ref import lexer as R1

LEVEL = "exploration"
LEVEL_TEXT = ("Every string of a bounded lexical alphabet is enumerated and tens of thousands of grammar-generated and mutated sources "
              "are run through the real lexer/parser/strip utility; an independent reference lexer and layout laws judge every run. "
              "Exhaustive on the short-string sub-space, sampled elsewhere; reports 'held on N cases', not a proof.")
LEVEL_NOTE = "trusted: reference lexer R1 (vf/ref/lexer.py), structural AST comparison, Python itself; sampling beyond the enumerated sub-space"
TECHNIQUE = "runtime monitoring: differential oracle (spec reference lexer) + metamorphic layout laws over enumerated and generated sources"
RULE = ("(A) bounded-exhaustive: every string up to length 4 (quick) / 5 (thorough) over the 16-symbol lexical "
        "alphabet {a 1 0 . - e \" \\ # { ! $ space LF , BOM} is lexed by the real Lexer (token links incl. comments) and by "
        "the reference lexer R1 written from the spec grammar; (B) grammar-generated sources over the whole grammar with "
        "hostile string contents, plus mutants of them, get the same comparison and the layout laws: ignored sequences "
        "inserted at every/sampled token boundary leave parse() unchanged, strip_ignored_characters is idempotent, "
        "accepts exactly what R1 lexes and preserves the AST, max_tokens=n accepts iff R1 counts <= n tokens. "
        "A case is non-trivial if it lexes to >= 2 tokens or is rejected after >= 1 token; distinct = distinct source text.")
ASSUMPTIONS = ["R1 (vf/ref/lexer.py, ~130 lines from the spec's lexical grammar) is the trusted model",
               "AST equality is structural equality of all dataclass fields except loc"]
REQUIRED_COUNTERS = ["lexer_vs_R1_comparisons", "insertion_rewrites_compared", "strip_laws_checked", "max_tokens_laws_checked"]

ALPHA = ['a', '1', '0', '.', '-', 'e', '"', '\\', '#', '{', '!', '$', ' ', '\n', ',', '\ufeff']
IGNORED_CHARS = set(' \t\n\r,\ufeff')


def classify_crash(e):
    return f"lexer-crash:{type(e).__name__}"


def compare_lex(ctx, s, origin):
    """Real lexer vs R1 on one string.  Returns R1 tokens or None."""
    ctx.count("lexer_vs_R1_comparisons")
    try:
        ref = R1.lex(s)
    except R1.LexError:
        ref = None
    try:
        real, eof = real_tokens(s)
    except GraphQLSyntaxError:
        real = None
    except Exception as e:  # noqa: BLE001
        ctx.violation(classify_crash(e), {"source": s, "exception": repr(e)[:200]}, {"kind": "lex", "source": s, "origin": origin})
        return ref
    if (ref is None) != (real is None):
        ctx.violation("accept-mismatch:" + ("lexer-accepts-what-grammar-rejects" if ref is None else "lexer-rejects-what-grammar-accepts"),
                      {"source": s, "R1": ref, "real": real}, {"kind": "lex", "source": s, "origin": origin})
        return ref
    if ref is None:
        ctx.count("rejected_by_both")
        return None
    ctx.count("accepted_by_both")
    if [tuple(t) for t in real] != ref:
        i = next((i for i, (a, b) in enumerate(zip(real, ref)) if tuple(a) != b), min(len(real), len(ref)))
        what = "value" if i < len(real) and i < len(ref) and real[i][:3] == ref[i][:3] else "kind-or-span"
        ctx.violation(f"token-mismatch:{what}", {"source": s, "index": i, "R1": ref[i:i + 2], "real": real[i:i + 2]},
                      {"kind": "lex", "source": s, "origin": origin})
        return ref
    # spans: ordered, disjoint, gaps only ignored characters, EOF at len(s)
    pos = 0
    for k, st, en, _ in real:
        if st < pos or en <= st:
            ctx.violation("span-order", {"source": s, "token": (k, st, en)}, {"kind": "lex", "source": s, "origin": origin})
            return ref
        if any(c not in IGNORED_CHARS for c in s[pos:st]):
            ctx.violation("gap-not-ignored", {"source": s, "gap": s[pos:st]}, {"kind": "lex", "source": s, "origin": origin})
            return ref
        pos = en
    if any(c not in IGNORED_CHARS for c in s[pos:]) or eof.start != len(s):
        ctx.violation("gap-not-ignored", {"source": s, "tail": s[pos:], "eof": eof.start}, {"kind": "lex", "source": s, "origin": origin})
    return ref


def try_parse(s, **kw):
    try:
        return ('ok', parse(s, **kw))
    except GraphQLSyntaxError as e:
        return ('err', e.message)


def layout_laws(ctx, s, flags, rng, origin, all_boundaries=False):
    case = {"kind": "layout", "source": s, "flags": flags, "origin": origin}
    ref = compare_lex(ctx, s, origin)
    # --- strip laws (strip only needs the source to lex)
    ctx.count("strip_laws_checked")
    try:
        st = ('ok', strip_ignored_characters(s))
    except GraphQLSyntaxError:
        st = ('err',)
    except Exception as e:  # noqa: BLE001
        ctx.violation(f"strip-crash:{type(e).__name__}", {"source": s, "exception": repr(e)[:200]}, case)
        return
    if (st[0] == 'ok') != (ref is not None):
        ctx.violation("strip-accept-mismatch", {"source": s, "strip": st[0], "R1_lexes": ref is not None}, case)
        return
    if ref is None:
        return
    sig_count = len(R1.significant(ref))
    stripped = st[1]
    try:
        again = strip_ignored_characters(stripped)
    except Exception as e:  # noqa: BLE001
        ctx.violation("strip-not-idempotent", {"source": s, "stripped": stripped, "exception": repr(e)[:200]}, case)
        return
    if again != stripped:
        ctx.violation("strip-not-idempotent", {"source": s, "stripped": stripped, "again": again}, case)
    # stripped text must have the same significant tokens (kinds and values)
    try:
        ref2 = R1.significant(R1.lex(stripped))
    except R1.LexError:
        ctx.violation("strip-output-does-not-lex", {"source": s, "stripped": stripped}, case)
        return
    if [(t[0], t[3]) for t in ref2] != [(t[0], t[3]) for t in R1.significant(ref)]:
        ctx.violation("strip-changes-tokens", {"source": s, "stripped": stripped}, case)
    base = try_parse(s, **flags)
    if base[0] == 'ok':
        ctx.count("parseable_sources")
        pb = plain(base[1])
        sp = try_parse(stripped, **flags)
        if sp[0] != 'ok' or plain(sp[1]) != pb:
            ctx.violation("strip-changes-ast", {"source": s, "stripped": stripped,
                                                "diff": sp[1] if sp[0] != 'ok' else first_diff(pb, plain(sp[1]))}, case)
    else:
        sp = try_parse(stripped, **flags)
        if sp[0] == 'ok':
            ctx.violation("strip-makes-unparseable-parse", {"source": s, "stripped": stripped, "error": base[1]}, case)
    # --- insertion rewrites at token boundaries (built from R1's spans, not the library's)
    toks = R1.significant(ref)
    if base[0] == 'ok' and toks:
        bounds = list(range(len(toks) + 1))
        reps = 1
        if not all_boundaries and len(bounds) > 6:
            bounds = rng.sample(bounds, 6)
        for b in bounds:
            for _ in range(reps):
                ins = src.ignored(rng) or rng.choice([' ', ',', '\n', '\ufeff', '#c\n', '\r\n', '\t'])
                at = toks[b][1] if b < len(toks) else len(s)
                # never insert inside the text that R1 says is a comment running to end of line
                t2 = s[:at] + ins + s[at:]
                if b == len(toks) and ref and ref[-1][0] == 'COMMENT' and ref[-1][2] == len(s):
                    t2 = s + '\n' + ins
                ctx.count("insertion_rewrites_compared")
                p2 = try_parse(t2, **flags)
                if p2[0] != 'ok' or plain(p2[1]) != pb:
                    ctx.violation("insert-ignored-changes-ast",
                                  {"source": s, "rewritten": t2, "inserted": ins, "boundary": b,
                                   "diff": p2[1] if p2[0] != 'ok' else first_diff(pb, plain(p2[1]))}, case)
                    break
    # --- token limit law
    ctx.count("max_tokens_laws_checked")
    if base[0] == 'ok':
        p = Parser(s, **flags)
        p.parse_document()
        if p.token_count != sig_count:
            ctx.violation("token-count-mismatch", {"source": s, "token_count": p.token_count, "R1": sig_count}, case)
        for n in {0, sig_count - 1, sig_count, sig_count + 1}:
            if n < 0:
                continue
            r = try_parse(s, max_tokens=n, **flags)
            if (r[0] == 'ok') != (sig_count <= n):
                ctx.violation("max-tokens-law", {"source": s, "n": n, "tokens": sig_count, "outcome": r[0],
                                                 "message": None if r[0] == 'ok' else r[1]}, case)
    if len(ref) >= 2:
        ctx.nontrivial(s)


def run_shard(ctx):
    # (A) enumeration
    maxlen = 5 if ctx.tier == "thorough" else 4
    i = 0
    for L in range(maxlen + 1):
        for tup in itertools.product(ALPHA, repeat=L):
            i += 1
            if not ctx.mine(i):
                continue
            s = ''.join(tup)
            ctx.case()
            ref = compare_lex(ctx, s, "enum")
            if ref is not None and len(ref) >= 2:
                ctx.nontrivial(s)
            if i % 20011 == 0:
                ctx.sample({"part": "A", "source": s, "R1_tokens": ref})
    ctx.count("enumerated_strings", 0)
    # (B) generated sources + mutants + layout laws
    n = ctx.n(24000, 400000)
    rng = ctx.rng
    for k in range(n):
        flags = {}
        fa = rng.random() < 0.25
        dd = rng.random() < 0.25
        if fa:
            flags["experimental_fragment_arguments"] = True
        if dd:
            flags["experimental_directives_on_directive_definitions"] = True
        s = src.gen_source(rng, 'document', frag_args=fa, dir_on_dir=dd, max_depth=2)
        origin = "gen"
        r = rng.random()
        if r < 0.35:
            s = mut.mutate(rng, s, lone=True)
            origin = "gen+mut"
        ctx.case()
        layout_laws(ctx, s, flags, rng, origin, all_boundaries=len(s) < 60)
        if k % 997 == 0:
            ctx.sample({"part": "B", "origin": origin, "source": s[:300], "flags": flags})
    # (C) block strings around runs of quotes and backslashes
    for i, s in enumerate(block_string_family()):
        if ctx.mine(i):
            ctx.case()
            ctx.count("block_string_family_sources")
            layout_laws(ctx, s, {}, rng, "block-string family", all_boundaries=True)


def block_string_family():
    """Sources with block strings whose values end / start in runs of quotes and backslashes (written by the printer,
    whose faithfulness is C08's business): the minimised layout must keep exactly these values."""
    from graphql import print_ast
    from graphql.language import ast as A
    out = []
    for prefix in ('', 'a', 'a\n  b', '\\', '"', 'a\n'):
        for k in range(0, 9):
            for suffix in ('', 'x', '\\', ' ', '\n'):
                v = prefix + '"' * k + suffix
                node = A.FieldNode(name=A.NameNode(value='f'), arguments=(A.ArgumentNode(name=A.NameNode(value='a'),
                                   value=A.StringValueNode(value=v, block=True)),))
                doc = A.DocumentNode(definitions=(A.OperationDefinitionNode(operation=A.OperationType.QUERY,
                                     selection_set=A.SelectionSetNode(selections=(node,))),))
                try:
                    out.append(print_ast(doc))
                except Exception:  # noqa: BLE001
                    pass
    return out


def replay(ctx, case):
    import random
    if case["kind"] == "lex":
        compare_lex(ctx, case["source"], case.get("origin", "replay"))
    else:
        layout_laws(ctx, case["source"], case.get("flags", {}), random.Random(0), "replay", all_boundaries=True)
