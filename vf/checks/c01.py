"""C01 - the request pipeline is total: bad input becomes errors, never a crash."""
from __future__ import annotations

import asyncio
import itertools
import json
import math
import random

from graphql import (ExecutionResult, GraphQLError, GraphQLSyntaxError, graphql, graphql_sync, parse)
from graphql.language import Lexer, Source, TokenKind, parse_const_value, parse_schema_coordinate, parse_type, parse_value

from ..gen import mut, src
from ..gen.doc import DocGen, directive_argument_soup, oneof_literal_soup
from ..gen.schemas import rich
from ..worker import srepr

LEVEL = "exploration"
LEVEL_TEXT = ("Hundreds of thousands of hostile source texts (grammar-generated, mutated with lone surrogates and cut at every offset, "
              "all short strings over a 20-symbol alphabet, bracket nesting to depth 100) go through every parsing entry point and the lexer; "
              "tens of thousands of requests (valid and garbage documents, hostile variables, operation names, resolvers raising or returning "
              "exceptions of many classes, sync and async) go through graphql_sync/graphql. A boundary monitor classifies whatever comes out: only "
              "the library's syntax error may leave the parse entry points, nothing may leave a request, and every result must satisfy the response-format predicate.")
LEVEL_NOTE = ("trusted: the response-format predicate in this file; BaseExceptions that are not Exceptions (KeyboardInterrupt, CancelledError) and exception "
              "classes whose GraphQL-reserved attributes hold ill-typed garbage are out of scope; nesting > 100 is outside the statement")
TECHNIQUE = "runtime monitoring: boundary exception classifier + response-format predicate over hostile generated inputs (fuzz-style workload)"
RULE = ("(A) parse / parse_value / parse_const_value / parse_type / parse_schema_coordinate / Lexer stepping on: generated sources, mutants (insert/delete/"
        "substitute from a hostile alphabet incl. lone surrogates, truncation at every offset, dangerous tails such as \"\\u12), every string up to length "
        "3 (quick) / 4 (thorough) over a 20-symbol alphabet, each bracket kind nested 1/50/99/100 deep; (B) graphql_sync / graphql on the rich schema with generated valid "
        "documents and grammar-random ones over the schema's vocabulary x hostile variable maps x operation names x resolver exception classes. "
        "Non-trivial: the input reached beyond lexing of the first token (parse cases: >= 2 characters; requests: any); distinct = distinct input text (+ variables).")
ASSUMPTIONS = ["Python's recursion limit is the default 1000 in the worker", "resolver exceptions are subclasses of Exception"]
REQUIRED_COUNTERS = ["parse_entry_point_calls", "syntax_errors_observed", "requests_run", "resolver_exceptions_surfaced"]

ALPHA = ['a', '1', '0', '.', '-', 'e', '"', '\\', '#', '{', '!', '$', ' ', '\n', ',', '\ufeff', 'u', '\r', '\u2028', '\ud800']
ENTRY = [('parse', parse), ('parse_value', parse_value), ('parse_const_value', parse_const_value),
         ('parse_type', parse_type), ('parse_schema_coordinate', parse_schema_coordinate)]


def step_lexer(s):
    lx = Lexer(Source(s))
    while lx.advance().kind != TokenKind.EOF:
        pass


def try_entry(ctx, name, fn, s, origin):
    ctx.count("parse_entry_point_calls")
    try:
        fn(s)
    except GraphQLSyntaxError:
        ctx.count("syntax_errors_observed")
    except Exception as e:  # noqa: BLE001
        ctx.violation(f"{'lexer' if name == 'lexer' else 'parser'}-crash:{type(e).__name__}",
                      {"entry_point": name, "source": s[:400], "exception": repr(e)[:300]},
                      {"kind": "parse", "entry": name, "source": s, "origin": origin})
        return False
    return True


def all_entries(ctx, s, origin, flags=False):
    ok = try_entry(ctx, 'lexer', step_lexer, s, origin)
    for name, fn in ENTRY:
        try_entry(ctx, name, fn, s, origin)
    if flags:
        try_entry(ctx, 'parse+experimental', lambda x: parse(x, experimental_fragment_arguments=True,
                                                            experimental_directives_on_directive_definitions=True, no_location=True), s, origin)
    return ok


# ---------------- requests ----------------
class Custom(Exception):
    def __init__(self, msg):
        super().__init__(msg)
        self.message = "custom message"
        self.extensions = {"code": "CUSTOM", "n": 1}


class WithStrNone(Exception):
    def __str__(self):
        return ""


class Carrier(Exception):
    """An exception from some other library that happens to carry attributes GraphQL errors also use."""

    def __init__(self, msg, **attrs):
        super().__init__(msg)
        for k, v in attrs.items():
            setattr(self, k, v)


class Lazy:
    def __str__(self):
        return "lazy text"


class ExtMethod(Exception):
    def extensions(self):
        return {"x": 1}


def carrier(rng):
    attrs = {}
    if rng.random() < 0.6:
        attrs["extensions"] = rng.choice([["not", "a", "dict"], "E42", {"gzip", "br"}, 3, {"code": "E42"}, None, (), 0.5, Lazy()])
    if rng.random() < 0.3:
        attrs["message"] = rng.choice([404, None, Lazy(), "plain", b"bytes", ["l"]])
    if rng.random() < 0.3:
        attrs["source"] = rng.choice(["{ a }", 7, None, Lazy(), b"src"])
    if rng.random() < 0.2:
        attrs["path"] = rng.choice(["/_search", 5, None])
    if rng.random() < 0.2:
        attrs["locations"] = rng.choice(["here", [1, 2], None])
    return Carrier("carried", **attrs)


def exc_pool(rng, path):
    if rng.random() < 0.3:
        return carrier(rng) if rng.random() < 0.9 else ExtMethod("meth")
    k = rng.randrange(16)
    p = list(path)
    return [
        lambda: ValueError("bad value"), lambda: KeyError(("odd", 1)), lambda: StopIteration("stop"),
        lambda: RecursionError("deep"), lambda: UnicodeDecodeError("utf-8", b"\xff", 0, 1, "bad"), lambda: ZeroDivisionError(),
        lambda: Exception(), lambda: Exception(123, b"x"), lambda: Custom("c"), lambda: WithStrNone(),
        lambda: GraphQLError("plain graphql error"), lambda: GraphQLError("with ext", extensions={"a": [1, {"b": None}]}),
        lambda: GraphQLError("with path", path=["x", 1]), lambda: OSError(2, "nope"), lambda: AssertionError(),
        lambda: TypeError("unexpected"),
    ][k]()


def make_resolver(schema, rng, p_raise, log, want_async):
    from graphql import get_named_type, is_leaf_type, is_list_type, is_non_null_type, is_abstract_type, is_enum_type

    def gen(t, path, depth):
        if is_non_null_type(t):
            t = t.of_type
        elif rng.random() < 0.05:
            return None
        if is_list_type(t):
            return [gen(t.of_type, path + [i], depth + 1) for i in range(rng.randint(0, 2))]
        if is_leaf_type(t):
            n = t.name
            if rng.random() < 0.08:
                return rng.choice([float('nan'), 2**40, {'x': 1}, 'str', [1], b'b', object()])
            if n == 'Int':
                return rng.randint(-5, 5)
            if n == 'Float':
                return rng.random()
            if n == 'Boolean':
                return rng.random() < 0.5
            if is_enum_type(t):
                return rng.choice(list(t.values))
            return 'v' + str(len(path))
        if is_abstract_type(t):
            poss = schema.get_possible_types(t)
            return {'__typename': rng.choice(poss).name if rng.random() < 0.9 else 'Nope'}
        return {'__typename': t.name}

    def resolver(_source, info, **args):
        path = info.path.as_list()
        r = rng.random()
        if r < p_raise:
            e = exc_pool(rng, path)
            if rng.random() < 0.25:
                log.append((path, e, 'returned'))
                return e
            log.append((path, e, 'raised'))
            if want_async and rng.random() < 0.5:
                async def fail():
                    raise e
                return fail()
            raise e
        v = gen(info.return_type, path, 0)
        if not want_async and isinstance(v, list) and _is_list_typed(info.return_type) and rng.random() < 0.04:
            # a resolver handing an async iterable to the synchronous entry point: it cannot be consumed there, which
            # must surface as an error in a well-formed response (never as a coroutine object inside data)
            items, boom = v, (exc_pool(rng, path) if rng.random() < 0.5 else None)

            async def agen():
                for x in items:
                    yield x
                if boom is not None:
                    raise boom
            return agen()
        if want_async and rng.random() < 0.3:
            async def ok():
                return v
            return ok()
        return v
    return resolver


HOSTILE_VALUES = [None, True, False, 0, -1, 2**31, -2**31 - 1, 2**53 + 1, 10**5000, 1.5, float('nan'), float('inf'), -0.0, '', 'x', 'ADMIN',
                  '\ud800', [], [1, [2]], [None], {}, {'a': {'b': [None]}}, {'req': True}, {'req': None}, {'byId': 1, 'byName': 'n'}, b'x', (1, 2),
                  {'req': True, 'nested': {'req': True, 'nested': {'req': 1}}}, ['ADMIN', 'NOPE'], 3.0, '7', {'q': 10**5000, 'req': True}]


# characters whose lower / upper / folded form has another length or another script: near-miss names made of them end up in the
# "did you mean" machinery (unknown enum value, unknown input field)
CASE_ODDITIES = [chr(0x130), chr(0x131), chr(0xdf), chr(0x1c5), chr(0xfb01), chr(0x212a), chr(0x1e9e), chr(0x149), chr(0x3a3), chr(0x390)]
SCHEMA_NAMES = ['ADMIN', 'USER', 'GUEST', 'q', 'min', 'roles', 'nested', 'req', 'ids', 'byId', 'byName', 'byFilter']


def near_name(rng):
    base = list(rng.choice(SCHEMA_NAMES))
    for _ in range(rng.randint(1, 3)):
        k = rng.random()
        ch = rng.choice(CASE_ODDITIES)
        if k < 0.5 and base:
            base[rng.randrange(len(base))] = ch
        elif k < 0.8:
            base.insert(rng.randint(0, len(base)), ch)
        else:
            base = [ch] * rng.randint(1, 5)
    s = ''.join(base)
    return rng.choice([s, s.upper(), s.lower(), s.swapcase()])


def near_value(rng):
    k = rng.random()
    if k < 0.4:
        return near_name(rng)
    if k < 0.7:
        return {near_name(rng): rng.choice([1, 'x', None, True]), 'req': True}
    if k < 0.8:
        # a Python mapping need not have text keys (a decoded msgpack / YAML body, a hand-built dict)
        return {rng.choice([1, None, (1, 2), 2.5, True, b'req', frozenset()]): rng.choice([1, 'x', None]), 'req': True}
    return [near_name(rng), {'nested': {near_name(rng): 1, 'req': False}, 'req': True}]


def _is_list_typed(t):
    """(a custom scalar passes any resolver value through, a list or an async generator included: only a list-typed field makes
    the executor iterate what the resolver returned)"""
    from graphql import get_nullable_type, is_list_type
    return is_list_type(get_nullable_type(t))


def hostile_variables(rng, declared, valid):
    out = {}
    for name in declared:
        k = rng.random()
        if k < 0.25:
            continue
        if k < 0.6 and name in valid:
            out[name] = valid[name]
        elif k < 0.72:
            out[name] = near_value(rng)
        else:
            out[name] = rng.choice(HOSTILE_VALUES)
    if rng.random() < 0.2:
        out['undeclared'] = rng.choice(HOSTILE_VALUES)
    return out


def check_result(ctx, res, log, case):
    """Response-format predicate + located resolver errors."""
    def bad(mech, detail):
        ctx.violation(mech, {**detail, "source": case["source"][:400], "variables": srepr(case.get("variables"))[:300]}, case)
        return False
    if not isinstance(res, ExecutionResult):
        return bad("result-not-an-execution-result", {"type": type(res).__name__})
    if res.data is not None and not isinstance(res.data, dict):
        return bad("response-format:data-type", {"data": repr(res.data)[:200]})
    if res.errors is not None and (not isinstance(res.errors, list) or not res.errors or not all(isinstance(e, GraphQLError) for e in res.errors)):
        return bad("response-format:errors-type", {"errors": repr(res.errors)[:200]})
    if res.data is None and not res.errors:
        return bad("response-format:null-data-without-errors", {})
    try:
        fmt = res.formatted
    except Exception as e:  # noqa: BLE001
        return bad(f"formatted-crash:{type(e).__name__}", {"exception": repr(e)[:200]})
    def json_problem(v, depth=0):
        if v is None or isinstance(v, (bool, str)):
            return None
        if isinstance(v, int):
            return None
        if isinstance(v, float):
            return None      # finiteness is C16's clause; a custom scalar may pass anything through
        if depth > 200:
            return None
        if isinstance(v, dict):
            for k, x in v.items():
                if not isinstance(k, str):
                    return f'non-string key {k!r}'
                p = json_problem(x, depth + 1)
                if p:
                    return p
            return None
        if isinstance(v, (list, tuple)):
            for x in v:
                p = json_problem(x, depth + 1)
                if p:
                    return p
            return None
        import inspect
        if inspect.isawaitable(v) or inspect.isasyncgen(v) or inspect.isgenerator(v) or hasattr(v, '__aiter__') or hasattr(v, '__anext__'):
            return f'{type(v).__name__} object in data'      # execution machinery leaked into the response
        return None     # a custom scalar passes the resolver's value through
    jp = json_problem(res.data)
    if jp:
        return bad("response-format:data-not-json", {"problem": jp})
    for e in fmt.get("errors", []):
        if not isinstance(e.get("message"), str):
            return bad("response-format:message", {"error": repr(e)[:200]})
        for l in e.get("locations", []) or []:
            if not (isinstance(l.get("line"), int) and isinstance(l.get("column"), int) and l["line"] >= 1 and l["column"] >= 1):
                return bad("response-format:location", {"error": repr(e)[:200]})
        if "extensions" in e and not isinstance(e["extensions"], dict):
            return bad("response-format:extensions", {"error": repr(e)[:200]})
        if "path" in e and not (isinstance(e["path"], list) and all(isinstance(p, (str, int)) and not isinstance(p, bool) for p in e["path"])):
            return bad("response-format:path", {"error": repr(e)[:200]})
    # resolver exceptions must surface as located errors (unless swallowed under an already nulled ancestor)
    errs = res.errors or []
    by_orig = {id(e.original_error): e for e in errs if e.original_error is not None}
    # where each reported error really happened: its path, or - for an error object a resolver handed over with a
    # path of its own (passed through unchanged) - the path of the resolver that raised it
    happened = [list(x.path) for x in errs if x.path is not None]
    happened += [p for p, exc, _ in log if any(x is exc for x in errs)]
    for path, exc, how in log:
        e = by_orig.get(id(exc)) or next((x for x in errs if x is exc), None)
        if e is None:
            # legitimate only if an ancestor position (or this one) was already nulled by another error
            # (an error elsewhere may have propagated to a common ancestor): then the position is not in the data at all
            cur, gone = res.data, False
            for key in path[:-1]:
                try:
                    cur = cur[key]
                except (KeyError, IndexError, TypeError):
                    gone = True
                    break
                if cur is None:
                    gone = True
                    break
            if not gone and not any(hp == path[:len(hp)] or path == hp[:len(path)] for hp in happened) and res.data is not None:
                return bad("resolver-exception-lost", {"path": path, "exception": repr(exc)[:100]})
            continue
        ctx.count("resolver_exceptions_surfaced")
        if isinstance(exc, GraphQLError) and exc.path:
            continue  # the resolver handed over an error that already claims a position: passed through unchanged by design
        if list(e.path or []) != path:
            return bad("located-error:path", {"path": path, "reported": e.path})
        if not e.locations:
            return bad("located-error:no-location", {"path": path, "exception": repr(exc)[:100]})
    return True


def run_request(ctx, schema, source, variables, op_name, rng, p_raise, want_async, case):
    log = []
    resolver = make_resolver(schema, rng, p_raise, log, want_async)
    ctx.count("requests_run")
    # the documented request options, given now and then: an error limit and an explicit rule list (seeded by the case)
    opts = {}
    orng = random.Random(case.get("seed", 0) ^ 0x5bd1e995)
    k = orng.random()
    if k < 0.12:
        opts["max_errors"] = orng.choice([0, 1, 2, 5, 100])
    elif k < 0.2:
        from graphql.validation import specified_rules
        opts["rules"] = orng.sample(list(specified_rules), orng.randint(0, len(specified_rules)))
    elif k < 0.25:
        from graphql.validation import specified_rules
        opts["rules"], opts["max_errors"] = list(specified_rules), orng.choice([1, 3])
    if opts:
        ctx.count("requests_with_validation_options")
    try:
        if want_async:
            ctx.count("async_requests_run")
            res = asyncio.run(graphql(schema, source, variable_values=variables, operation_name=op_name, field_resolver=resolver, **opts))
        else:
            res = graphql_sync(schema, source, variable_values=variables, operation_name=op_name, field_resolver=resolver, **opts)
    except Exception as e:  # noqa: BLE001
        import traceback
        tb = traceback.extract_tb(e.__traceback__)
        where = next((f"{f.name}" for f in reversed(tb) if '/graphql/' in f.filename), '?')
        stage = 'variables' if 'values' in ''.join(f.filename for f in tb) else ('validate' if '/validation/' in ''.join(f.filename for f in tb) else 'request')
        ctx.violation(f"{stage}-crash:{type(e).__name__}", {"exception": repr(e)[:300], "in": where, "source": source[:400],
                                                            "variables": srepr(variables)[:300], "operation_name": op_name}, case)
        return None
    if res.errors:
        ctx.count("requests_with_errors")
    if check_result(ctx, res, log, case):
        ctx.count("results_satisfying_format_predicate")
    return res


def request_case(ctx, rng, k):
    schema = rich()
    mode = rng.random()
    want_async = rng.random() < 0.2
    if mode < 0.55:
        g = DocGen(schema, rng, ops=('query', 'query', 'mutation'))
        source = g.gen()
        declared = list(g.vars)
        variables = hostile_variables(rng, declared, g.variables()) if rng.random() < 0.6 else g.variables()
        origin = "G-doc"
        if rng.random() < 0.15:
            source = mut.mutate(rng, source, lone=True)
            origin = "G-doc+mut"
    else:
        names = ['me', 'users', 'echo', 'id', 'name', 'friends', 'User', 'Query', 'Filter', 'Role', 'ADMIN', 'best', 'pet', 'Dog', 'node', 'search',
                 'term', 'first', 'filter', 'req', 'i', 'o', 'l', 'Q', 'F', 'v', 'bump', 'by', 'setName']
        source = src.gen_source(rng, rng.choice(['exec', 'exec', 'document']), max_depth=3, names=names)
        variables = {n: rng.choice(HOSTILE_VALUES) for n in rng.sample(names, 3)}
        origin = "G-src over schema vocabulary"
        if rng.random() < 0.3:
            source = mut.mutate(rng, source, lone=True)
    op_name = rng.choice([None, None, None, 'Q', 'Nope', '', '\u00dc', 'F'])
    case = {"kind": "request", "source": source, "variables": variables, "operation_name": op_name,
            "seed": rng.getrandbits(32), "async": want_async, "origin": origin}
    rr = random.Random(case["seed"])
    case["p_raise"] = rng.choice([0.0, 0.1, 0.3])
    res = run_request(ctx, schema, source, variables, op_name, rr, case["p_raise"], want_async, case)
    ctx.nontrivial((source, srepr(variables), op_name))
    if k % 1499 == 0:
        ctx.sample({"part": "B", "origin": origin, "source": source[:300], "variables": srepr(variables)[:200], "operation_name": op_name,
                    "result": None if res is None else json.dumps(res.formatted, default=repr)[:300]})


def deep_request_cases(ctx):
    schema = rich()
    for depth in (1, 50, 99, 100):
        for kind in ('selection', 'list', 'object', 'inline', 'listtype'):
            if kind == 'selection':
                source = '{ me ' + '{ best ' * (depth - 1) + '{ id }' + ' }' * (depth - 1) + ' }' if depth > 1 else '{ me { id } }'
            elif kind == 'list':
                source = '{ me { echo(ll: ' + '[' * depth + '1' + ']' * depth + ') } }'
            elif kind == 'object':
                source = '{ echo(o: ' + '{req: true, nested: ' * depth + '{req: true}' + '}' * depth + ') }'
            elif kind == 'inline':
                source = '{ ' + '... on Query { ' * depth + 'echo' + ' }' * depth + ' }'
            else:
                source = 'query($v: ' + '[' * depth + 'Int' + ']' * depth + ') { echo(i: 1) }'
            case = {"kind": "request", "source": source, "variables": {}, "operation_name": None, "seed": depth, "async": False, "origin": f"nest:{kind}:{depth}"}
            ctx.case()
            run_request(ctx, schema, source, {}, None, random.Random(depth), 0.0, False, case)
            ctx.label("nesting_depths_run", f"{kind}:{depth}")


def run_shard(ctx):
    rng = ctx.rng
    # (A1) enumeration
    maxlen = 4 if ctx.tier == "thorough" else 3
    i = 0
    for L in range(maxlen + 1):
        for tup in itertools.product(ALPHA, repeat=L):
            i += 1
            if not ctx.mine(i):
                continue
            s = ''.join(tup)
            ctx.case()
            all_entries(ctx, s, "enum")
            if L >= 2:
                ctx.nontrivial(s)
    # (A2) nesting
    if ctx.shard == 0:
        for depth in (1, 50, 99, 100):
            for kind in ('selection', 'inline', 'list', 'object', 'listtype', 'listtype_sdl'):
                s = mut.nested(kind, depth)
                ctx.case()
                try_entry(ctx, 'parse', parse, s, f"nest:{kind}:{depth}")
            for kind, fn in (('value_list', parse_value), ('value_object', parse_const_value), ('type_list', parse_type)):
                ctx.case()
                try_entry(ctx, fn.__name__, fn, mut.nested(kind, depth), f"nest:{kind}:{depth}")
        deep_request_cases(ctx)
    # (A3) generated + mutated + every truncation point
    n = ctx.n(60000, 1200000)
    for k in range(n):
        s = src.gen_source(rng, rng.choice(['document', 'exec', 'sdl', 'value', 'type', 'coordinate']), max_depth=2,
                           frag_args=rng.random() < 0.3, dir_on_dir=rng.random() < 0.3)
        r = rng.random()
        if r < 0.8:
            for _ in range(rng.randint(1, 3)):
                s = mut.mutate(rng, s, lone=True)
        if r > 0.9:
            soup = mut.escape_soup(rng)
            s = rng.choice([soup, '{ f(a: ' + soup + ') }', soup + ' type T { f: Int }'])
        ctx.case()
        all_entries(ctx, s, "gen+mut", flags=True)
        if len(s) >= 2:
            ctx.nontrivial(s)
        if k % 50 == 0:
            base = s[:120]
            for cut in range(len(base) + 1):
                ctx.case()
                t = base[:cut]
                try_entry(ctx, 'parse', parse, t, "truncation")
                try_entry(ctx, 'lexer', step_lexer, t, "truncation")
        if k % 4999 == 0:
            ctx.sample({"part": "A", "source": s[:200]})
    # (B) requests
    for k in range(ctx.n(12000, 200000)):
        ctx.case()
        request_case(ctx, rng, k)
    # (B') every executable directive at every kind of position of every operation type, well- and ill-typed arguments
    # (the schema with the experimental directives is not executable through graphql(): validated only, see C12)
    for i, source in enumerate(directive_argument_soup(rich()) + oneof_literal_soup()):
        if not ctx.mine(i):
            continue
        for variables in ({}, {'v': True}, {'v': 'x'}, {'v': {}, 'i': None}, {'v': {'byId': 1}, 'i': 2}, {'d': {}}, {'d': [{'nope': 1}]}):
            if '$' not in source and variables:
                continue
            ctx.case()
            ctx.count("directive_argument_requests")
            case = {"kind": "request", "source": source, "variables": variables, "operation_name": None, "seed": i, "async": False,
                    "origin": "directive-argument soup", "p_raise": 0.0}
            run_request(ctx, rich(), source, variables, None, random.Random(i), 0.0, False, case)


def replay(ctx, case):
    if case["kind"] == "parse":
        s = case["source"]
        all_entries(ctx, s, "replay", flags=True)
    else:
        run_request(ctx, rich(), case["source"], case["variables"], case["operation_name"], random.Random(case["seed"]),
                    case.get("p_raise", 0.3), case.get("async", False), case)
