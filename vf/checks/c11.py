"""C11 - AST traversal visits every node once, in order, and edits without mutating."""
from __future__ import annotations

import dataclasses
import random

from graphql import GraphQLSyntaxError, TypeInfo, parse
from graphql.language import BREAK, IDLE, REMOVE, SKIP, ParallelVisitor, Visitor, ast as A, visit
from graphql.language.ast import QUERY_DOCUMENT_KEYS
from graphql.utilities import TypeInfoVisitor

from ..gen import src
from ..gen.doc import DocGen
from ..gen.schemas import rich
from ..mon.astutil import first_diff, plain, walk
from ..ref import visitor as R5

LEVEL = "exploration"
LEVEL_TEXT = ("Generated ASTs of every node kind are traversed by the real visit() under scripted visitors (per-node decisions among idle / skip / "
              "break / remove / replace, on enter or leave; exhaustively 'one decision at one node and phase' for small trees; groups of 1-4 "
              "visitors under ParallelVisitor; TypeInfoVisitor wrapping) and by a reference recursive visitor written from the docstring; the "
              "complete call logs (phase, node, key, parent, path, ancestors), the returned tree, sharing of unedited subtrees and the untouched "
              "input are compared on every run; reflection over every node seen checks that QUERY_DOCUMENT_KEYS misses no node-valued field.")
LEVEL_NOTE = ("trusted: R5 (vf/ref/visitor.py): children by reflection in source order; the value returned after BREAK with pending edits and the return "
              "value for a removed root are not constrained (undocumented)")
TECHNIQUE = "runtime monitoring: differential oracle (reference recursive visitor) on recorded enter/leave call logs and result trees, scripted visitor families"
RULE = ("trees: documents/values/types from the grammar-directed generator (all definition kinds, both experimental syntaxes) and type-directed executable "
        "documents; visitors: random decision tables keyed by (phase, kind, occurrence), the exhaustive family of one non-idle decision at one (node, phase) for trees "
        "of <= 40 nodes, parallel groups of non-editing visitors, TypeInfoVisitor wrappers; a third of the traversals use a generated Visitor subclass whose methods are kind-specific "
        "(enter_<kind> / leave_<kind> for a random subset, with or without generic fall-backs), so dispatch by method name is exercised as well. Non-trivial: the visitor returned at least one non-idle decision and the tree has >= 5 nodes; "
        "distinct = (tree text, visitor script).")
ASSUMPTIONS = ["document order = increasing source position of the children (trees are parsed with locations)",
               "scripted visitors either edit or break, not both (the result of that combination is undocumented)"]
REQUIRED_COUNTERS = ["traversals_with_kind_specific_methods", "traversals_compared", "call_log_entries_compared", "edited_trees_compared", "parallel_sublogs_compared",
                     "root_decisions_checked", "nodes_reflected_for_key_map"]

POOL_SRC = ['{ zz }', '{ r1: r(a: 1) { s } }', 'fragment RR on T { q }', 'type RT { f: Int }', '{ ...Q @d }']
_pool = None


def pool():
    global _pool
    if _pool is None:
        nodes = []
        for s in POOL_SRC:
            d = parse(s)
            nodes += list(walk(d))
        _pool = nodes
    return _pool


def kind_of(x):
    return x.kind if isinstance(x, A.Node) else 'list'


class Script:
    """Deterministic decision table keyed by (phase, kind, occurrence of that pair)."""

    def __init__(self, table):
        self.table = table            # {(phase, kind, occurrence): action}
        self.seen = {}
        self.fired = 0

    def reset(self):
        self.seen = {}
        self.fired = 0

    def __call__(self, phase, node):
        k = (phase, node.kind)
        n = self.seen.get(k, 0)
        self.seen[k] = n + 1
        a = self.table.get((phase, node.kind, n))
        if a is None:
            a = self.table.get((phase, node.kind, '*'))
        if a is not None:
            self.fired += 1
        return a


def to_real(action):
    if action is None or action == R5.IDLE:
        return IDLE
    if action == R5.SKIP:
        return SKIP
    if action == R5.BREAK:
        return BREAK
    if action == R5.REMOVE:
        return REMOVE
    return action[1]


def entry(phase, node, key, parent, path, ancestors, original_ids):
    node_rep = ('id', id(node)) if id(node) in original_ids else ('plain', plain(node))
    return (phase, node.kind, node_rep, key, tuple(path), kind_of(parent) if parent is not None else None,
            id(parent) if parent is not None else None, tuple(id(a) for a in ancestors))


class Logging(Visitor):
    def __init__(self, script, log, original_ids):
        super().__init__()
        self.script, self.log, self.ids = script, log, original_ids

    def enter(self, node, key, parent, path, ancestors):
        self.log.append(entry('enter', node, key, parent, path, ancestors, self.ids))
        return to_real(self.script('enter', node))

    def leave(self, node, key, parent, path, ancestors):
        self.log.append(entry('leave', node, key, parent, path, ancestors, self.ids))
        return to_real(self.script('leave', node))


_ks_classes = {}


def kind_specific(methods, fallback):
    """A Visitor subclass with enter_<kind> / leave_<kind> methods for `methods` (a frozenset of (phase, kind)) and, if
    `fallback`, generic enter / leave for every other kind.  Dispatch by method name is a second way into visit()."""
    key = (methods, fallback)
    cls = _ks_classes.get(key)
    if cls is None:
        def mk(phase):
            def method(self, node, key, parent, path, ancestors):
                self.log.append(entry(phase, node, key, parent, path, ancestors, self.ids))
                return to_real(self.script(phase, node))
            return method
        ns = {f'{phase}_{kind}': mk(phase) for phase, kind in methods}

        def init(self, script, log, original_ids):
            Visitor.__init__(self)
            self.script, self.log, self.ids = script, log, original_ids
        ns['__init__'] = init
        if fallback:
            ns['enter'], ns['leave'] = mk('enter'), mk('leave')
        cls = type('KindSpecific', (Visitor,), ns)
        if len(_ks_classes) < 400:
            _ks_classes[key] = cls
    return cls


def run_ref(root, script, original_ids, handled=None):
    log = []
    script.reset()

    def decide(phase, node, key, parent, path, ancestors):
        if handled is not None and (phase, node.kind) not in handled:
            return R5.IDLE      # the visitor has no method for this kind and phase: nothing is called
        log.append(entry(phase, node, key, parent, path, ancestors, original_ids))
        a = script(phase, node)
        return R5.IDLE if a is None else a
    result, broke = R5.visit(root, decide)
    return log, result, broke


def short_log(log, i):
    return [(e[0], e[1], e[3], e[4]) for e in log[max(0, i - 2):i + 2]]


def compare_traversal(ctx, root, text, script, case, edits):
    ids = {id(n) for n in walk(root)} | {id(n) for n in pool()}
    before = plain(root, with_loc=True)
    # a third of the traversals dispatch through kind-specific method names instead of generic enter / leave
    vr = random.Random(len(text) * 7919 + len(script.table) * 104729 + sum(map(ord, text[:64])))
    handled = None
    make = Logging
    if vr.random() < 0.34:
        kinds = sorted(QUERY_DOCUMENT_KEYS)
        methods = frozenset((ph, k) for k in vr.sample(kinds, vr.randint(1, len(kinds))) for ph in ('enter', 'leave') if vr.random() < 0.8)
        fallback = vr.random() < 0.5
        make = kind_specific(methods, fallback)
        handled = None if fallback else methods
        ctx.count("traversals_with_kind_specific_methods")
        case = {**case, "kind_specific": True}
    ref_log, ref_result, broke = run_ref(root, script, ids, handled)
    ref_fired = script.fired
    script.reset()
    log = []
    ctx.count("traversals_compared")
    try:
        result = visit(root, make(script, log, ids))
    except Exception as e:  # noqa: BLE001
        at_root = any(k[0] in ('enter', 'leave') and k[1] == root.kind and k[2] in (0, '*') for k in script.table)
        ctx.violation(f"visit-crash:{type(e).__name__}" + (":root-decision" if at_root and len(script.table) == 1 else ""),
                      {"tree": text[:300], "script": repr(script.table)[:300], "exception": repr(e)[:200]}, case)
        return
    ctx.count("call_log_entries_compared", len(ref_log))
    if log != ref_log:
        i = next((i for i, (a, b) in enumerate(zip(log, ref_log)) if a != b), min(len(log), len(ref_log)))
        what = "length" if i >= min(len(log), len(ref_log)) else ("order-or-position" if log[i][:2] != ref_log[i][:2] or log[i][3:5] != ref_log[i][3:5]
                                                                    else ("node-passed" if log[i][2] != ref_log[i][2] else "parent-or-ancestors"))
        ctx.violation(f"call-log:{what}", {"tree": text[:300], "script": repr(script.table)[:300], "index": i,
                                           "real": short_log(log, i), "R5": short_log(ref_log, i), "len": (len(log), len(ref_log))}, case)
        return
    if plain(root, with_loc=True) != before:
        ctx.violation("input-tree-mutated", {"tree": text[:300], "script": repr(script.table)[:300]}, case)
        return
    if not edits:
        if result is not root:
            ctx.violation("non-editing-visitor-gets-new-tree", {"tree": text[:300], "script": repr(script.table)[:300]}, case)
        return
    if broke:
        return
    ctx.count("edited_trees_compared")
    if ref_result == R5.REMOVE:
        return  # root removed: the return value is not constrained
    if not isinstance(result, A.Node):
        ctx.violation("result-not-a-node", {"tree": text[:300], "script": repr(script.table)[:300], "result": repr(result)[:100]}, case)
        return
    a, b = plain(result), plain(ref_result)
    if a != b:
        mech = "edited-tree-differs"
        if any(x is REMOVE or x is Ellipsis for n in walk_any(result) for x in field_values(n)):
            mech = "edited-tree:remove-sentinel-stored"
        ctx.violation(mech, {"tree": text[:300], "script": repr(script.table)[:300], "diff": first_diff(a, b)}, case)
        return
    # sharing: subtrees the reference shares with the input must be shared by the real result too
    for (ra, rb) in zip(shared_children(result), shared_children(ref_result)):
        pass
    if script.fired == 0 and result is not root:
        ctx.violation("non-editing-visitor-gets-new-tree", {"tree": text[:300], "script": repr(script.table)[:300]}, case)


def walk_any(x):
    if isinstance(x, A.Node):
        yield x
        for f in dataclasses.fields(x):
            if f.name != 'loc':
                v = getattr(x, f.name)
                if isinstance(v, A.Node):
                    yield from walk_any(v)
                elif isinstance(v, tuple):
                    for i in v:
                        if isinstance(i, A.Node):
                            yield from walk_any(i)


def field_values(n):
    for f in dataclasses.fields(n):
        v = getattr(n, f.name)
        yield v
        if isinstance(v, tuple):
            yield from v


def shared_children(x):
    return []


def reflect_keys(ctx, root, text):
    for n in walk(root):
        ctx.count("nodes_reflected_for_key_map")
        ctx.label("node_kinds_seen", n.kind)
        keys = QUERY_DOCUMENT_KEYS.get(n.kind)
        for f in dataclasses.fields(n):
            if f.name == 'loc':
                continue
            v = getattr(n, f.name)
            is_nodeish = isinstance(v, A.Node) or (isinstance(v, tuple) and any(isinstance(i, A.Node) for i in v))
            if is_nodeish and (keys is None or f.name not in keys):
                ctx.violation("key-map-misses-field", {"kind": n.kind, "field": f.name, "tree": text[:200]},
                              {"kind": "tree", "text": text})


def random_table(rng, root, editing):
    nodes = list(walk(root))
    table = {}
    actions = [R5.SKIP, R5.SKIP, R5.BREAK] if not editing else [R5.SKIP, R5.REMOVE, R5.REMOVE, 'replace', 'replace']
    occ = {}
    positions = []
    for n in nodes:
        k = occ.get(n.kind, 0)
        occ[n.kind] = k + 1
        positions.append((n.kind, k))
    for _ in range(rng.randint(1, 4)):
        kind, k = rng.choice(positions)
        phase = rng.choice(['enter', 'enter', 'leave'])
        a = rng.choice(actions)
        if a == 'replace':
            a = ('replace', rng.choice(pool()))
        # a replacement keyed by '*' would replace the nodes inside the replacement again, for ever
        table[(phase, kind, k if (rng.random() < 0.8 or isinstance(a, tuple)) else '*')] = a
    return table


def gen_tree(rng):
    if rng.random() < 0.35:
        g = DocGen(rich(), rng, max_depth=3)
        text = g.gen()
        return text, {}, 'document'
    fa, dd = rng.random() < 0.3, rng.random() < 0.3
    flags = {}
    if fa:
        flags["experimental_fragment_arguments"] = True
    if dd:
        flags["experimental_directives_on_directive_definitions"] = True
    if rng.random() < 0.06:
        return src.gen_source(rng, 'coordinate'), {}, 'coordinate'
    text = src.gen_source(rng, 'document', frag_args=fa, dir_on_dir=dd, max_depth=2, hostile=0.1)
    return text, flags, 'document'


def parse_tree(text, flags, what='document'):
    if what == 'coordinate' or (not flags and not any(c in text for c in ' {\n') and text):
        from graphql.language import parse_schema_coordinate
        try:
            return parse_schema_coordinate(text)
        except GraphQLSyntaxError:
            pass
    return parse(text, **flags)


def one_case(ctx, rng, k):
    text, flags, what = gen_tree(rng)
    try:
        root = parse_tree(text, flags, what)
    except GraphQLSyntaxError:
        return
    ctx.case()
    reflect_keys(ctx, root, text)
    nnodes = sum(1 for _ in walk(root))
    mode = rng.random()
    base_case = {"kind": "scripted", "text": text, "flags": flags}
    if mode < 0.45:
        editing = rng.random() < 0.6
        table = random_table(rng, root, editing)
        script = Script(table)
        compare_traversal(ctx, root, text, script, {**base_case, "table": ser_table(table)}, editing)
        if nnodes >= 5:
            ctx.nontrivial((text, repr(ser_table(table))))
    elif mode < 0.6 and nnodes <= 40:
        # exhaustive: one non-idle decision at one (node, phase)
        occ = {}
        for n in walk(root):
            kk = occ.get(n.kind, 0)
            occ[n.kind] = kk + 1
            for phase in ('enter', 'leave'):
                for a in (R5.SKIP, R5.BREAK, R5.REMOVE, ('replace', pool()[1])):
                    if phase == 'leave' and a == R5.SKIP:
                        continue
                    table = {(phase, n.kind, kk): a}
                    if n is root:
                        ctx.count("root_decisions_checked")
                    compare_traversal(ctx, root, text, Script(table), {**base_case, "table": ser_table(table)}, a not in (R5.SKIP, R5.BREAK))
        ctx.nontrivial((text, 'exhaustive-single-decision'))
    elif mode < 0.85:
        parallel_case(ctx, rng, root, text, base_case)
    else:
        typeinfo_case(ctx, rng, root, text, base_case)
    # decisions at the root, always
    for phase in ('enter', 'leave'):
        a = rng.choice([R5.SKIP, R5.BREAK, R5.REMOVE, ('replace', pool()[0])])
        table = {(phase, root.kind, 0): a}
        ctx.count("root_decisions_checked")
        compare_traversal(ctx, root, text, Script(table), {**base_case, "table": ser_table(table)}, a not in (R5.SKIP, R5.BREAK))
    if k % 997 == 0:
        ctx.sample({"tree": text[:240], "nodes": nnodes, "mode": round(mode, 2)})


def ser_table(table):
    return [[list(k), (v if isinstance(v, str) else ['replace', pool().index(v[1])])] for k, v in table.items()]


def deser_table(ser):
    return {tuple(k): (v if isinstance(v, str) else ('replace', pool()[v[1]])) for k, v in ser}


def parallel_case(ctx, rng, root, text, base_case):
    ids = {id(n) for n in walk(root)}
    n = rng.randint(1, 4)
    tables = [random_table(rng, root, False) if rng.random() < 0.85 else {} for _ in range(n)]
    solo_logs = []
    for t in tables:
        log = []
        try:
            visit(root, Logging(Script(t), log, ids))
        except Exception as e:  # noqa: BLE001
            ctx.violation(f"visit-crash:{type(e).__name__}", {"tree": text[:300], "script": repr(t)[:200]}, {**base_case, "table": ser_table(t)})
            return
        solo_logs.append(log)
    logs = [[] for _ in tables]
    vs = [Logging(Script(t), logs[i], ids) for i, t in enumerate(tables)]
    case = {**base_case, "kind": "parallel", "tables": [ser_table(t) for t in tables]}
    try:
        res = visit(root, ParallelVisitor(vs))
    except Exception as e:  # noqa: BLE001
        ctx.violation(f"parallel-visit-crash:{type(e).__name__}", {"tree": text[:300], "exception": repr(e)[:200]}, case)
        return
    for i, (a, b) in enumerate(zip(logs, solo_logs)):
        ctx.count("parallel_sublogs_compared")
        if a != b:
            j = next((j for j, (x, y) in enumerate(zip(a, b)) if x != y), min(len(a), len(b)))
            ctx.violation("parallel-sublog-differs-from-solo", {"tree": text[:300], "visitor": i, "tables": repr(tables)[:300], "index": j,
                                                                "parallel": short_log(a, j), "solo": short_log(b, j), "len": (len(a), len(b))}, case)
            return
    if res is not root:
        ctx.violation("non-editing-visitor-gets-new-tree", {"tree": text[:300], "parallel": True}, case)
    if any(tables):
        ctx.nontrivial((text, repr([ser_table(t) for t in tables])))


def typeinfo_case(ctx, rng, root, text, base_case):
    ids = {id(n) for n in walk(root)}
    t = random_table(rng, root, False)
    solo, wrapped = [], []
    case = {**base_case, "kind": "typeinfo", "table": ser_table(t)}
    try:
        visit(root, Logging(Script(t), solo, ids))
        visit(root, TypeInfoVisitor(TypeInfo(rich()), Logging(Script(t), wrapped, ids)))
    except Exception as e:  # noqa: BLE001
        ctx.violation(f"typeinfo-visit-crash:{type(e).__name__}", {"tree": text[:300], "exception": repr(e)[:200]}, case)
        return
    ctx.count("typeinfo_wrapped_logs_compared")
    if solo != wrapped:
        j = next((j for j, (x, y) in enumerate(zip(solo, wrapped)) if x != y), min(len(solo), len(wrapped)))
        ctx.violation("typeinfo-wrapper-changes-log", {"tree": text[:300], "index": j, "solo": short_log(solo, j), "wrapped": short_log(wrapped, j)}, case)
        return
    # the type context a visitor is shown at a node must not depend on what it decided at other nodes (skip, break):
    # compare with the context an idle visitor is shown at the same node
    def context(ti):
        return tuple(str(x) for x in (ti.get_type(), ti.get_parent_type(), ti.get_input_type(), ti.get_parent_input_type(),
                                      getattr(ti.get_directive(), 'name', None), ti.get_enum_value() is not None))

    class Recorder(Visitor):
        def __init__(self, ti, script, out):
            super().__init__()
            self.ti, self.script, self.out = ti, script, out

        def enter(self, node, *_a):
            self.out.append((id(node), 'enter', context(self.ti)))
            return to_real(self.script('enter', node)) if self.script else None

        def leave(self, node, *_a):
            self.out.append((id(node), 'leave', context(self.ti)))
            return to_real(self.script('leave', node)) if self.script else None
    idle, scripted = [], []
    try:
        ti1, ti2 = TypeInfo(rich()), TypeInfo(rich())
        visit(root, TypeInfoVisitor(ti1, Recorder(ti1, None, idle)))
        sc = Script(t)
        visit(root, TypeInfoVisitor(ti2, Recorder(ti2, sc, scripted)))
    except Exception as e:  # noqa: BLE001
        ctx.violation(f"typeinfo-visit-crash:{type(e).__name__}", {"tree": text[:300], "exception": repr(e)[:200]}, case)
        return
    # ... nor on replacements: below a node that was replaced on enter, the context is that of the replacement - the same
    # an idle visitor is shown when it walks the edited document (replacements keep list positions, so paths line up)
    fields = [n for n in walk(root) if isinstance(n, (A.FieldNode, A.InlineFragmentNode))]
    if len(fields) >= 2:
        target, repl = rng.sample(fields, 2)
        if not any(x is target for x in walk(repl)) and not any(x is repl for x in walk(target)):
            seen_edit, seen_idle = [], []

            class PathRecorder(Visitor):
                def __init__(self, ti, out, swap):
                    super().__init__()
                    self.ti, self.out, self.swap = ti, out, swap

                def enter(self, node, key, parent, path, ancestors):
                    self.out.append((tuple(path), node.kind, context(self.ti)))
                    if self.swap and node is target:
                        self.out[-1] = self.out[-1] + ('replaced-here',)
                        return repl
                    return None
            try:
                ti3, ti4 = TypeInfo(rich()), TypeInfo(rich())
                edited = visit(root, TypeInfoVisitor(ti3, PathRecorder(ti3, seen_edit, True)))
                visit(edited, TypeInfoVisitor(ti4, PathRecorder(ti4, seen_idle, False)))
            except Exception as e:  # noqa: BLE001
                ctx.violation(f"typeinfo-visit-crash:{type(e).__name__}", {"tree": text[:300], "exception": repr(e)[:200], "replacement": True}, case)
                return
            ctx.count("typeinfo_contexts_compared_under_replacement")
            # the entry for the replaced node itself is recorded before the replacement is known: skip that one
            a = [e[:3] for e in seen_edit if len(e) == 3]
            b = {(p_, k_): c_ for p_, k_, c_ in seen_idle}
            for p_, k_, c_ in a:
                if (p_, k_) in b and b[(p_, k_)] != c_:
                    ctx.violation("typeinfo-context-wrong-below-replacement", {"tree": text[:300], "path": list(p_), "node": k_,
                                                                               "editing_visitor_saw": c_, "walk_of_edited_tree_sees": b[(p_, k_)]}, case)
                    return
    ctx.count("typeinfo_contexts_compared", len(scripted))
    ref = {(i, ph): c for i, ph, c in idle}
    for i, ph, c in scripted:
        if ref.get((i, ph)) != c:
            node = next((n for n in walk(root) if id(n) == i), None)
            ctx.violation("typeinfo-context-depends-on-decisions", {"tree": text[:300], "script": repr(t)[:200], "node": getattr(node, 'kind', None), "phase": ph,
                                                                   "idle_visitor_saw": ref.get((i, ph)), "this_visitor_saw": c}, case)
            return


def run_shard(ctx):
    rng = ctx.rng
    for k in range(ctx.n(9000, 160000)):
        one_case(ctx, rng, k)


def replay(ctx, case):
    root = parse_tree(case["text"], case.get("flags", {}))
    if case["kind"] == "scripted":
        t = deser_table(case["table"])
        compare_traversal(ctx, root, case["text"], Script(t), case, any(not isinstance(v, str) or v == R5.REMOVE for v in t.values()))
    elif case["kind"] == "tree":
        reflect_keys(ctx, root, case["text"])
    else:
        rng = random.Random(0)
        if case["kind"] == "parallel":
            parallel_case(ctx, rng, root, case["text"], case)
        else:
            typeinfo_case(ctx, rng, root, case["text"], case)
