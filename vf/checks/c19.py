"""C19 - schema transformations preserve meaning: extend = build, sort only reorders, change detection is sound."""
from __future__ import annotations

import copy
import random
import re

from graphql import build_schema, extend_schema, lexicographic_sort_schema, parse, print_schema
from graphql.utilities import find_schema_changes

from ..gen.schema import BUILTIN, SchemaGen, nullable, render_sdl, split_extension
from ..ref import schema_canon as C

LEVEL = "exploration"
LEVEL_TEXT = ("Generated valid schema models are split at random into a base SDL and an extension document (extensions of any subset of types with fields / "
              "interfaces / members / values / input fields, `extend schema` with operation types, new directives and new types, in shuffled order); the real "
              "extend_schema result is compared with the real build of base+extension (printed text and canonical description, also against the generating "
              "model), the base schema object must stay untouched, a document that adds nothing must return the same object; lexicographic_sort_schema must "
              "change order only and be idempotent; find_schema_changes must be silent on identical / rebuilt / sorted schemas and every change it reports for a "
              "single-edit mutant must name a definition whose printed form really differs.")
LEVEL_NOTE = "trusted: canonical extraction/comparison, the generator's SDL renderer and splitter; change soundness is judged on printed definitions (print_schema blocks)"
TECHNIQUE = "runtime monitoring: algebraic laws (extend = build, sort idempotent/order-only, change detector silent on equals and sound on single edits) over generated schema pairs"
RULE = ("(base, extension) pairs from G-schema.split_extension; schemas and 1-edit mutants of their models (add/remove/retype field, argument, input field, enum value, union member, "
        "interface, default, repeatable flag, location, whole type, kind of a type, directive and directive arguments, argument types, member and directive descriptions). Non-trivial: the extension document has >= 2 definitions, or the mutant changes the printed schema; distinct = (base SDL, extension / edit).")
ASSUMPTIONS = ["a reported change is attributed to the definitions whose names occur in its description"]
REQUIRED_COUNTERS = ["extend_vs_build_compared", "original_unchanged_checked", "noop_extensions_checked", "sort_laws_checked", "self_comparisons", "mutant_change_sets_checked"]

NAME = re.compile(r'@?[_A-Za-z][_0-9A-Za-z]*')


def blocks(printed):
    """{definition name: printed block} of a print_schema text (sliced by the parser's definition locations)."""
    out = {}
    try:
        doc = parse(printed, experimental_directives_on_directive_definitions=True)
    except Exception:  # noqa: BLE001
        return {'schema': printed}
    for d in doc.definitions:
        name = getattr(getattr(d, 'name', None), 'value', None)
        if d.kind == 'directive_definition':
            name = '@' + name
        out[name or 'schema'] = printed[d.loc.start:d.loc.end]
    return out


def mutate_model(rng, m):
    """One named edit on a copy of the model (may make the schema invalid - irrelevant for the change detector law)."""
    M = copy.deepcopy(m)
    T = M['types']
    kinds = {}
    for n, t in T.items():
        kinds.setdefault(t['kind'], []).append(n)
    edits = ['add_field', 'remove_field', 'retype_field', 'add_arg', 'remove_arg', 'change_default', 'add_enum_value', 'remove_enum_value',
             'remove_union_member', 'drop_interface', 'toggle_repeatable', 'add_location', 'retype_input_field', 'add_input_field', 'remove_type',
             'change_description', 'deprecate_field', 'nothing', 'change_kind', 'remove_directive', 'add_directive', 'directive_add_arg',
             'directive_remove_arg', 'directive_retype_arg', 'directive_arg_default', 'retype_arg', 'describe_member', 'describe_directive',
             'remove_location']
    e = rng.choice(edits)
    oi = kinds.get('object', []) + kinds.get('interface', [])

    def flip(ref):
        return ref[1] if ref[0] == 'nn' else ('nn', ref)
    try:
        if e == 'add_field' and oi:
            T[rng.choice(oi)]['fields']['brandNew'] = {'type': ('n', 'Int'), 'args': {}, 'desc': None, 'deprecation': None}
        elif e == 'remove_field' and oi:
            t = T[rng.choice(oi)]
            if len(t['fields']) > 1:
                del t['fields'][rng.choice(list(t['fields']))]
        elif e == 'retype_field' and oi:
            t = T[rng.choice(oi)]
            f = t['fields'][rng.choice(list(t['fields']))]
            f['type'] = flip(f['type']) if rng.random() < 0.6 else ('l', f['type'])
        elif e == 'add_arg' and oi:
            t = T[rng.choice(oi)]
            f = t['fields'][rng.choice(list(t['fields']))]
            f['args']['extraArg'] = {'type': rng.choice([('n', 'Int'), ('nn', ('n', 'Int'))]), 'default': rng.choice([None, '3']), 'desc': None, 'deprecation': None}
        elif e == 'remove_arg' and oi:
            cands = [f for n in oi for f in T[n]['fields'].values() if f['args']]
            if cands:
                f = rng.choice(cands)
                del f['args'][rng.choice(list(f['args']))]
        elif e == 'change_default':
            cands = [a for n in oi for f in T[n]['fields'].values() for a in f['args'].values()]
            cands += [f for n in kinds.get('input', []) for f in T[n]['fields'].values()]
            if cands:
                a = rng.choice(cands)
                a['default'] = None if a['default'] is not None and rng.random() < 0.5 else 'null' if a['type'][0] != 'nn' else a['default']
        elif e == 'add_enum_value' and kinds.get('enum'):
            T[rng.choice(kinds['enum'])]['values']['NEW_VALUE'] = {'desc': None, 'deprecation': None}
        elif e == 'remove_enum_value' and kinds.get('enum'):
            t = T[rng.choice(kinds['enum'])]
            if len(t['values']) > 1:
                del t['values'][rng.choice(list(t['values']))]
        elif e == 'remove_union_member' and kinds.get('union'):
            t = T[rng.choice(kinds['union'])]
            if len(t['members']) > 1:
                t['members'].pop(rng.randrange(len(t['members'])))
        elif e == 'drop_interface' and oi:
            cands = [n for n in oi if T[n]['interfaces']]
            if cands:
                T[rng.choice(cands)]['interfaces'].pop()
        elif e == 'toggle_repeatable' and M['directives']:
            d = M['directives'][rng.choice(list(M['directives']))]
            d['repeatable'] = not d['repeatable']
        elif e == 'add_location' and M['directives']:
            d = M['directives'][rng.choice(list(M['directives']))]
            for loc in ('FIELD', 'QUERY', 'OBJECT', 'ENUM'):
                if loc not in d['locations']:
                    d['locations'].append(loc)
                    break
        elif e == 'retype_input_field' and kinds.get('input'):
            t = T[rng.choice(kinds['input'])]
            f = t['fields'][rng.choice(list(t['fields']))]
            if not t.get('one_of'):
                f['type'] = flip(f['type'])
        elif e == 'add_input_field' and kinds.get('input'):
            t = T[rng.choice(kinds['input'])]
            t['fields']['newField'] = {'type': rng.choice([('n', 'Int'), ('nn', ('n', 'Int'))]) if not t.get('one_of') else ('n', 'Int'),
                                       'default': None, 'desc': None, 'deprecation': None}
        elif e == 'change_description':
            t = T[rng.choice(list(T))]
            t['desc'] = 'changed description'
        elif e == 'deprecate_field' and oi:
            t = T[rng.choice(oi)]
            t['fields'][rng.choice(list(t['fields']))]['deprecation'] = 'because'
        elif e == 'remove_type':
            cands = [n for n in T if n not in M['roots'].values()]
            if cands:
                del T[rng.choice(cands)]         # builds only if nothing refers to it any more
        elif e == 'change_kind':
            cands = kinds.get('enum', []) + kinds.get('scalar', [])
            if cands:
                n = rng.choice(cands)
                if T[n]['kind'] == 'enum':
                    T[n] = {'kind': 'scalar', 'desc': T[n]['desc'], 'specified_by': None}
                else:
                    T[n] = {'kind': 'enum', 'desc': T[n]['desc'], 'values': {'ONLY': {'desc': None, 'deprecation': None}}}
        elif e == 'remove_directive' and M['directives']:
            del M['directives'][rng.choice(list(M['directives']))]
        elif e == 'add_directive':
            M['directives']['brandNewDirective'] = {'desc': None, 'args': {}, 'locations': ['FIELD'], 'repeatable': False, 'deprecation': None}
        elif e == 'directive_add_arg' and M['directives']:
            d = M['directives'][rng.choice(list(M['directives']))]
            d['args']['extraArg'] = {'type': rng.choice([('n', 'Int'), ('nn', ('n', 'Int'))]), 'default': rng.choice([None, '3']), 'desc': None, 'deprecation': None}
        elif e in ('directive_remove_arg', 'directive_retype_arg', 'directive_arg_default') and M['directives']:
            cands = [d for d in M['directives'].values() if d['args']]
            if cands:
                d = rng.choice(cands)
                an = rng.choice(list(d['args']))
                if e == 'directive_remove_arg':
                    del d['args'][an]
                elif e == 'directive_retype_arg':
                    d['args'][an]['type'] = flip(d['args'][an]['type']) if rng.random() < 0.6 else ('l', d['args'][an]['type'])
                    if d['args'][an]['type'][0] == 'nn':
                        d['args'][an]['deprecation'] = None
                else:
                    a = d['args'][an]
                    a['default'] = None if a['default'] is not None else ('null' if a['type'][0] != 'nn' else None)
        elif e == 'retype_arg' and oi:
            cands = [a for n in oi for f in T[n]['fields'].values() for a in f['args'].values()]
            if cands:
                a = rng.choice(cands)
                a['type'] = flip(a['type']) if rng.random() < 0.6 else ('l', a['type'])
                if a['type'][0] == 'nn':
                    a['deprecation'] = None
        elif e == 'describe_member':
            cands = [f for n in oi for f in T[n]['fields'].values()]
            cands += [a for n in oi for f in T[n]['fields'].values() for a in f['args'].values()]
            cands += [f for n in kinds.get('input', []) for f in T[n]['fields'].values()]
            cands += [v for n in kinds.get('enum', []) for v in T[n]['values'].values()]
            cands += [a for d in M['directives'].values() for a in d['args'].values()]
            if cands:
                rng.choice(cands)['desc'] = rng.choice(['changed member description', 'two\nlines', ''])
        elif e == 'describe_directive' and M['directives']:
            M['directives'][rng.choice(list(M['directives']))]['desc'] = 'changed directive description'
        elif e == 'remove_location' and M['directives']:
            d = M['directives'][rng.choice(list(M['directives']))]
            if len(d['locations']) > 1:
                d['locations'].pop(rng.randrange(len(d['locations'])))
    except (KeyError, IndexError):
        pass
    return M, e


def check_pair(ctx, seed, k):
    rng = random.Random(seed)
    m = SchemaGen(rng, adversarial=rng.choice([0.0, 0.2])).model()
    A, B, moved = split_extension(rng, m)
    a = render_sdl(A)
    case = {"seed": seed, "base": a, "extension": B}
    ctx.case()
    try:
        SA = build_schema(a)
    except Exception as e:  # noqa: BLE001
        ctx.count("base_not_buildable")
        return
    before = print_schema(SA)
    canon_before = C.from_schema(SA)
    if B.strip():
        try:
            SE = extend_schema(SA, parse(B))
        except Exception as e:  # noqa: BLE001
            ctx.violation("extend-fails", {"exception": str(e)[:300], "base": a[:400], "extension": B[:400]}, case)
            return
        try:
            SAB = build_schema(a + '\n' + B)
        except Exception as e:  # noqa: BLE001
            ctx.violation("build-of-base-plus-extension-fails", {"exception": str(e)[:300]}, case)
            return
        ctx.count("extend_vs_build_compared")
        pe, pb = print_schema(SE), print_schema(SAB)
        d = C.diff(C.from_schema(SE), C.from_schema(SAB))
        if pe != pb or d:
            i = next((i for i, (x, y) in enumerate(zip(pe, pb)) if x != y), min(len(pe), len(pb)))
            what = "roots" if any('roots' in x for x in d) else ("order" if any('order' in x for x in d) else "content")
            ctx.violation(f"extend-differs-from-build:{what}", {"diffs": d[:4], "extended": pe[max(0, i - 80):i + 80], "built": pb[max(0, i - 80):i + 80],
                                                                "extension": B[:500]}, case)
            return
        dm = [x for x in C.diff(C.from_model(m), C.from_schema(SE), ordered_types=False) if not x.startswith('schema.directives: order differs')]
        if dm:
            ctx.violation("extended-schema-differs-from-model", {"diffs": dm[:4]}, case)
            return
        if B.count('\n\n') >= 1:
            ctx.nontrivial((a, B))
    else:
        SE = SA
    ctx.count("original_unchanged_checked")
    if print_schema(SA) != before or C.diff(canon_before, C.from_schema(SA)):
        ctx.violation("extend-modifies-original", {"base": a[:400], "extension": B[:400]}, case)
        return
    ctx.count("noop_extensions_checked")
    qroot = SA.query_type.name if SA.query_type else None
    for text in ('{ __typename }',) + ((f'query Q {{ __typename }} fragment F on {qroot} {{ __typename }}',) if qroot else ()):
        try:
            # whatever the validity options say (they concern validation, not whether anything is added)
            opts = {"assume_valid_sdl": rng.random() < 0.5}
            if rng.random() < 0.5:
                opts["assume_valid"] = rng.random() < 0.5
            same = extend_schema(SA, parse(text), **opts)
        except Exception as e:  # noqa: BLE001
            ctx.violation(f"noop-extension-crash:{type(e).__name__}", {"document": text, "exception": repr(e)[:200]}, case)
            return
        if same is not SA:
            ctx.violation("noop-extension-returns-new-object", {"document": text}, case)
            return
    # sorting
    S = SE
    ctx.count("sort_laws_checked")
    try:
        SS = lexicographic_sort_schema(S)
        SSS = lexicographic_sort_schema(SS)
    except Exception as e:  # noqa: BLE001
        ctx.violation(f"sort-crash:{type(e).__name__}", {"exception": repr(e)[:200]}, case)
        return
    d = C.diff(C.from_schema(S), C.from_schema(SS), ordered_types=False, ordered_members=False)
    if d:
        ctx.violation("sort-changes-content", {"diffs": d[:4]}, case)
        return
    if print_schema(SSS) != print_schema(SS):
        ctx.violation("sort-not-idempotent", {}, case)
        return
    for x, y, tag in ((S, SS, "original->sorted"), (SS, S, "sorted->original"), (S, S, "self")):
        ctx.count("self_comparisons")
        ch = find_schema_changes(x, y)
        if ch:
            ctx.violation("changes-reported-for-equal-schemas:" + tag.split('-')[0], {"direction": tag, "changes": [str(c.description)[:160] for c in ch][:4]}, case)
            return
    # single-edit mutants: every reported change must correspond to a printed difference
    full = render_sdl(m)
    try:
        S0 = build_schema(full)
    except Exception:  # noqa: BLE001
        return
    p0 = print_schema(S0)
    b0 = blocks(p0)
    for _ in range(3):
        M, edit = mutate_model(rng, m)
        try:
            S1 = build_schema(render_sdl(M))
        except Exception:  # noqa: BLE001
            ctx.count("mutant_not_buildable")
            continue
        p1 = print_schema(S1)
        b1 = blocks(p1)
        for x, y, bx, by, px, py in ((S0, S1, b0, b1, p0, p1), (S1, S0, b1, b0, p1, p0)):
            ctx.count("mutant_change_sets_checked")
            try:
                ch = find_schema_changes(x, y)
            except Exception as e:  # noqa: BLE001
                ctx.violation(f"find-schema-changes-crash:{type(e).__name__}", {"edit": edit, "exception": repr(e)[:200]}, {**case, "edit": edit})
                break
            if ch and px == py:
                ctx.violation("changes-reported-although-prints-equal", {"edit": edit, "changes": [str(c.description)[:160] for c in ch][:4]}, {**case, "edit": edit})
                break
            names_all = set(bx) | set(by)
            for c in ch:
                mentioned = [w for w in NAME.findall(str(c.description)) if w in names_all]
                if not mentioned:
                    ctx.count("changes_without_a_named_definition")
                    continue
                if all(bx.get(w) == by.get(w) for w in mentioned):
                    ctx.violation("change-without-printed-difference", {"edit": edit, "change": str(c.description)[:200], "type": str(c.type), "definitions": mentioned[:4]},
                                  {**case, "edit": edit})
                    break
        if p1 != p0:
            ctx.nontrivial((full, edit, p1))
    if k % 499 == 0:
        ctx.sample({"seed": seed, "base": a[:400], "extension": B[:400]})


def own_specified_directive_case(ctx, seed):
    """A schema may define a directive of its own under the name of a specified one (a legacy @deprecated, a @skip with an
    extra argument of a custom type).  Extending and sorting must treat it like any other directive of the schema."""
    rng = random.Random(seed)
    m = SchemaGen(rng, adversarial=0.0).model()
    inputs = [n for n, t in m['types'].items() if t['kind'] in ('scalar', 'enum', 'input')] + ['Int', 'String']
    nm = rng.choice(['skip', 'include', 'deprecated', 'specifiedBy', 'oneOf'])
    own = f'directive @{nm}(if: Boolean, since: {rng.choice(inputs)}) {"repeatable " if rng.random() < 0.3 else ""}on FIELD | FIELD_DEFINITION | ENUM_VALUE'
    root = m['roots']['query']
    a = render_sdl(m) + '\n\n' + own
    ext = f'extend type {root} {{ zzNew: Int }}'
    case = {"seed": seed, "kind": "own-specified-directive", "base": a, "extension": ext}
    try:
        S = build_schema(a)
        both = build_schema(a + '\n\n' + ext)
    except Exception:  # noqa: BLE001
        ctx.count("own_directive_schema_not_buildable")
        return
    ctx.case()
    ctx.count("own_specified_directive_cases")
    before = print_schema(S)
    try:
        E = extend_schema(S, parse(ext))
    except Exception as e:  # noqa: BLE001
        ctx.violation(f"extend-fails:{type(e).__name__}", {"exception": repr(e)[:200], "own_directive": own}, case)
        return
    if print_schema(E) != print_schema(both):
        ctx.violation("extend-differs-from-build:content", {"own_directive": own, "extended": print_schema(E)[-300:], "built": print_schema(both)[-300:]}, case)
        return
    try:
        SS = lexicographic_sort_schema(S)
    except Exception as e:  # noqa: BLE001
        ctx.violation(f"sort-crash:{type(e).__name__}", {"exception": repr(e)[:200], "own_directive": own}, case)
        return
    if sorted(print_schema(SS).split('\n')) != sorted(print_schema(lexicographic_sort_schema(SS)).split('\n')) or find_schema_changes(S, SS) or find_schema_changes(SS, S):
        ctx.violation("sort-changes-content", {"own_directive": own, "changes": [str(c.description)[:120] for c in find_schema_changes(S, SS)][:3]}, case)
        return
    if print_schema(S) != before:
        ctx.violation("extend-modifies-original", {"own_directive": own}, case)
        return
    ctx.nontrivial((a, 'own-specified-directive'))


def run_shard(ctx):
    base = ctx.seed * 3_000_017 + ctx.shard * 1_000_039
    for k in range(ctx.n(5000, 100000)):
        check_pair(ctx, base + k, k)
    for k in range(ctx.n(600, 10000)):
        own_specified_directive_case(ctx, base + 5_000_000 + k)


def replay(ctx, case):
    if case.get("kind") == "own-specified-directive":
        return own_specified_directive_case(ctx, case["seed"])
    check_pair(ctx, case["seed"], 1)
