"""C10 - every reported source location is the true line and column (R2)."""
from __future__ import annotations

import itertools
import json

from graphql import GraphQLError, GraphQLSyntaxError, build_schema, execute_sync, parse, validate
from graphql.language import Source, SourceLocation, get_location

from ..gen import mut, src
from ..mon.lexreal import real_tokens
from ..ref import lexer as R

LEVEL = "exploration"
LEVEL_TEXT = ("All short strings over the terminator alphabet x all offsets are enumerated, and tens of thousands of erroneous "
              "documents (syntax, validation, execution errors; location offsets) are produced on the real code; every location "
              "observed at the API is compared with a direct line/column scan (R2). Exhaustive on the short-string sub-space only.")
LEVEL_NOTE = "trusted: R2 (direct scan for LF, CR LF, CR in vf/ref/lexer.py) and R1 token starts; an offset strictly inside a CR LF pair counts the CR as the terminator before it (no token or error starts there, but get_location accepts any offset)"
TECHNIQUE = "runtime monitoring: differential oracle (direct line/column scan) on locations observed at the API, enumerated + generated erroneous documents"
RULE = ("(A) every string up to length 5 (quick) / 6 (thorough) over {a space LF CR U+000C U+0085 U+2028 # \" {} x every offset 0..len: "
        "Source.get_location / get_location vs R2, token line/column vs R2(token.start); (B) generated and mutated sources: location "
        "of the syntax error, formatted locations, str(error) under location offsets in {1,2,7,40}^2 (header line:column and excerpt line), "
        "token line/column of every token incl. block strings with mixed terminators; (C) flat queries rendered with hostile layout whose "
        "unknown fields (validation errors) and raising fields (execution errors) must be located at the R2 position of the field's first lexeme. "
        "Non-trivial: the text contains a line terminator or a non-spec separator before the located offset; distinct = (text, offset).")
ASSUMPTIONS = ["R2 is the specification's definition of line and column", "excerpt check: the line prefixed '<line> |' equals the R2 line text (first 80 chars for lines > 120)"]
REQUIRED_COUNTERS = ["get_location_vs_R2", "token_linecol_vs_R2", "syntax_error_locations_checked", "str_error_rendered",
                     "validation_error_locations_checked", "execution_error_locations_checked"]

ALPHA = ['a', ' ', '\n', '\r', '\x0c', '\x85', '\u2028', '#', '"', '{']
NONSPEC = set('\x0b\x0c\x1c\x1d\x1e\x85\u2028\u2029')
OFFS = [1, 2, 7, 40]

SCHEMA = build_schema('type Query { ok: Int boom: Int bang: String deep: Query }')


def mech_loc(s, off):
    pre = s[:off]
    if any(c in NONSPEC for c in pre):
        return "get-location:non-spec-terminator"
    if pre.endswith(('\n', '\r')):
        return "get-location:start-of-line"
    return "get-location:other"


def check_offset(ctx, source, s, off, case):
    # an offset between the CR and the LF of a CR LF pair has one terminator (the CR) before it: start of the next line
    exp = R.line_col(s, off)
    if R.inside_crlf(s, off):
        ctx.count("offsets_inside_a_crlf_pair")
    ctx.count("get_location_vs_R2")
    try:
        a = source.get_location(off)
        b = get_location(source, off)
    except Exception as e:  # noqa: BLE001
        ctx.violation(f"get-location-crash:{type(e).__name__}", {"text": s, "offset": off, "exception": repr(e)[:200]}, case)
        return
    if tuple(a) != exp or tuple(b) != exp or a.formatted != {"line": exp[0], "column": exp[1]}:
        ctx.violation(mech_loc(s, off), {"text": s, "offset": off, "reported": tuple(a), "true": exp}, case)


def check_tokens(ctx, s, case):
    try:
        toks, eof = real_tokens(s, with_linecol=True)
    except GraphQLSyntaxError:
        return False
    except Exception:  # noqa: BLE001  (crashes are C01/C09 business)
        return False
    for k, st, en, val, line, col in toks + [("EOF", eof.start, eof.end, None, eof.line, eof.column)]:
        ctx.count("token_linecol_vs_R2")
        exp = R.line_col(s, st)
        if (line, col) != exp:
            ctx.violation("token-linecol", {"text": s, "token": (k, st, en), "reported": (line, col), "true": exp}, case)
            return True
    return True


def expected_header(s, pos, name, lo):
    line, col = R.line_col(s, pos)
    return f"{name}:{line + lo[0] - 1}:{col + (lo[1] - 1 if line == 1 else 0)}", line, col


def check_rendering(ctx, err, s, pos, name, lo, case):
    """str(error) and .formatted never fail; header and excerpt agree with R2."""
    ctx.count("str_error_rendered")
    try:
        text = str(err)
        fmt = err.formatted
        json.dumps(fmt)
    except Exception as e:  # noqa: BLE001
        ctx.violation(f"render-crash:{type(e).__name__}", {"text": s, "position": pos, "exception": repr(e)[:200]}, case)
        return
    header, line, col = expected_header(s, pos, name, lo)
    exp_loc = {"line": line, "column": col}
    if fmt.get("locations") != [exp_loc] and exp_loc not in (fmt.get("locations") or []):
        ctx.violation("formatted-location", {"text": s, "position": pos, "formatted": fmt.get("locations"), "true": exp_loc}, case)
        return
    lines = text.split("\n\n", 1)[1].split("\n") if "\n\n" in text else []
    # the message itself may contain blank lines: locate the header line instead
    all_lines = text.split("\n")
    try:
        hi = max(i for i, l in enumerate(all_lines) if l == header)
    except ValueError:
        ctx.violation("header-location", {"text": s, "position": pos, "offset": lo, "expected_header": header, "rendered": text[-300:]}, case)
        return
    body = ' ' * (lo[1] - 1) + s
    true_line = R.split_lines(body)[line - 1]
    line_num = line + lo[0] - 1
    shown = None
    for l in all_lines[hi + 1:]:
        st = l.lstrip(' ')
        if st.startswith(f"{line_num} |"):
            shown = st[len(f"{line_num} |"):]
            shown = shown[1:] if shown.startswith(' ') else shown
            break
    # the rendered text is split at '\n' here, so a true line containing CR... cannot: CR is a terminator; but
    # non-spec separators inside the line are ordinary characters and stay in `shown`.
    exp_shown = true_line if len(true_line) <= 120 else true_line[:80]
    if '\n' in exp_shown:
        return
    if shown is None or shown != exp_shown:
        ctx.violation("excerpt-line", {"text": s, "position": pos, "offset": lo, "expected_line": exp_shown, "shown": shown}, case)


def check_node_errors(ctx, s, rng, case, flags=None):
    """An error that blames a node - any node, the document itself included - carries the node's true line and column."""
    from ..mon.astutil import walk
    try:
        doc = parse(Source(s), **(flags or {}))
    except Exception:  # noqa: BLE001
        return
    nodes = list(walk(doc))
    if len(nodes) > 40:
        nodes = [doc] + rng.sample(nodes[1:], 39)
    for n in nodes:
        if n.loc is None:
            continue
        ctx.count("node_error_locations_checked")
        exp = R.line_col(s, n.loc.start)
        try:
            err = GraphQLError('blamed', n)
            got = [tuple(l) for l in err.locations or []]
            fmt = err.formatted.get('locations')
        except Exception as e:  # noqa: BLE001
            ctx.violation(f"render-crash:{type(e).__name__}", {"text": s, "node": n.kind, "exception": repr(e)[:200]}, case)
            return
        if got != [exp] or fmt != [{"line": exp[0], "column": exp[1]}]:
            ctx.violation("node-error-location", {"text": s, "node": n.kind, "start": n.loc.start, "reported": got, "formatted": fmt, "true": exp}, case)
            return
    # an error that blames a node of this document AND carries an explicit source with positions of its own (what located_error
    # builds when a resolver raises a syntax error from parsing some other text): the reported location is the explicit one,
    # rendering must not fail, and what is rendered should be the line that the reported location names
    for n in rng.sample(nodes, min(3, len(nodes))):
        if n.loc is None:
            continue
        other = rng.choice([s[::-1], 'x\ny\n' + s, s + '\n\n?', 'one line', '\r\n'.join(['ab'] * rng.randint(1, 7)), ''])
        if not other:
            continue
        p = rng.randrange(len(other))
        if R.inside_crlf(other, p):
            continue
        ctx.count("node_errors_with_explicit_source_checked")
        exp = R.line_col(other, p)
        try:
            err = GraphQLError('blamed', nodes=[n], source=Source(other, 'other'), positions=[p])
            got = [tuple(l) for l in err.locations or []]
            fmt = err.formatted.get('locations')
            text = str(err)
        except Exception as e:  # noqa: BLE001
            ctx.violation(f"render-crash:{type(e).__name__}", {"text": s, "other": other, "position": p, "node": n.kind, "exception": repr(e)[:200]}, case)
            return
        if got != [exp] or fmt != [{"line": exp[0], "column": exp[1]}]:
            ctx.violation("explicit-position-location", {"text": s, "other": other, "position": p, "reported": got, "formatted": fmt, "true": exp}, case)
            return
        if f"other:{exp[0]}:{exp[1]}" not in text.split("\n"):
            nl = R.line_col(s, n.loc.start)
            mech = "rendered-location-differs-from-reported-location"
            if f"GraphQL request:{nl[0]}:{nl[1]}" in text.split("\n"):
                mech += ":nodes-take-precedence-over-explicit-source"
            ctx.violation(mech, {"text": s, "other": other, "position": p, "reported": got, "rendered": text[-200:]}, case)
            return


def check_syntax_error(ctx, s, rng, case, flags=None):
    name = rng.choice(["GraphQL request", "Foo.graphql", "a b"])
    lo = (rng.choice(OFFS), rng.choice(OFFS)) if rng.random() < 0.6 else (1, 1)
    source = Source(s, name, SourceLocation(*lo))
    try:
        parse(source, **(flags or {}))
        return False
    except GraphQLSyntaxError as e:
        err = e
    except Exception:  # noqa: BLE001
        return False
    ctx.count("syntax_error_locations_checked")
    pos = err.positions[0]
    if R.inside_crlf(s, pos):
        ctx.violation("syntax-error-inside-crlf", {"text": s, "position": pos}, case)
        return True
    exp = R.line_col(s, pos)
    if [tuple(l) for l in err.locations] != [exp]:
        ctx.violation("syntax-error-location", {"text": s, "position": pos, "reported": [tuple(l) for l in err.locations], "true": exp}, case)
        return True
    check_rendering(ctx, err, s, pos, name, lo, case)
    if rng.random() < 0.5:
        # the same text under another configured offset, rendered in the same process, and the first one once more:
        # what is rendered must depend on the Source it belongs to, not on what was rendered before
        lo2 = (rng.choice(OFFS), rng.choice([o for o in OFFS if o != lo[1]] or OFFS))
        try:
            parse(Source(s, name, SourceLocation(*lo2)), **(flags or {}))
        except GraphQLSyntaxError as e2:
            ctx.count("same_text_rendered_under_two_offsets")
            check_rendering(ctx, e2, s, e2.positions[0], name, lo2, {**case, "second_offset": lo2})
            check_rendering(ctx, err, s, pos, name, lo, {**case, "rendered_again_after_offset": lo2})
        except Exception:  # noqa: BLE001
            pass
    return True


def flat_query(rng):
    """{ f0 a1: f1 ... } with known lexeme offsets; returns text, [(response key, field, offset)]."""
    toks = ['{']
    fields = []
    n = rng.randint(1, 6)
    names = ['ok', 'boom', 'bang', 'nope', 'zz', 'deep']
    for i in range(n):
        f = rng.choice(names)
        key = f
        idx = len(toks)
        if rng.random() < 0.5:
            key = f"k{i}"
            toks += [key, ':']
        if f == 'deep':
            toks += [f, '{', 'boom', '}']
            fields.append((key, f, idx, idx + (2 if key != f else 0) + 2))
        else:
            toks.append(f)
            fields.append((key, f, idx, None))
    toks.append('}')
    offs = []
    text = src.render(rng, toks, 'rich', offsets=offs)
    return text, [(k, f, offs[i], offs[j] if j is not None else None) for k, f, i, j in fields]


def check_flat(ctx, rng):
    text, fields = flat_query(rng)
    case = {"kind": "flat", "text": text}
    name = "GraphQL request"
    lo = (rng.choice(OFFS), rng.choice(OFFS)) if rng.random() < 0.5 else (1, 1)
    try:
        doc = parse(Source(text, name, SourceLocation(*lo)))
    except GraphQLError:
        ctx.count("flat_query_unparseable")
        return
    verrs = validate(SCHEMA, doc)
    unknown = [(k, f, o) for k, f, o, _ in fields if f in ('nope', 'zz')]
    if unknown:
        got = sorted((tuple(l) for e in verrs if e.message.startswith("Cannot query field") for l in e.locations))
        exp = sorted(R.line_col(text, o) for _, _, o in unknown)
        ctx.count("validation_error_locations_checked", len(exp))
        if got != exp:
            ctx.violation("validation-error-location", {"text": text, "reported": got, "true": exp}, case)
        for e in verrs:
            if e.message.startswith("Cannot query field") and e.nodes:
                pos = e.nodes[0].loc.start
                check_rendering(ctx, e, text, pos, name, lo, case)
    if verrs:
        keys = [k for k, _, _, _ in fields]
        if len(set(keys)) != len(keys) or unknown:
            return
        return
    keys = [k for k, _, _, _ in fields]

    def boom(_src, _info):
        raise ValueError("boom")

    root = {"ok": 1, "boom": boom, "bang": boom, "deep": {"boom": boom}}
    res = execute_sync(SCHEMA, doc, root)
    exp = {}
    for k, f, o, o2 in fields:
        if f in ('boom', 'bang'):
            exp.setdefault((k,), R.line_col(text, o))
        elif f == 'deep':
            exp.setdefault((k, 'boom'), None)  # merged sub-selections: location = every boom node; check the first
    for e in res.errors or []:
        p = tuple(e.path)
        ctx.count("execution_error_locations_checked")
        if len(p) == 1:
            # all field nodes merged under this key are reported; each must be a true location of such a lexeme
            true = {R.line_col(text, o) for k, f, o, _ in fields if k == p[0]}
            if not e.locations or any(tuple(l) not in true for l in e.locations):
                ctx.violation("execution-error-location", {"text": text, "path": list(p), "reported": [tuple(l) for l in e.locations or []], "true": sorted(true)}, case)
        else:
            true = {R.line_col(text, o2) for k, f, o, o2 in fields if k == p[0] and o2 is not None}
            if not e.locations or any(tuple(l) not in true for l in e.locations):
                ctx.violation("execution-error-location", {"text": text, "path": list(p), "reported": [tuple(l) for l in e.locations or []], "true": sorted(true)}, case)
        if e.nodes:
            check_rendering(ctx, e, text, e.nodes[0].loc.start, name, lo, case)
    if any(c in text for c in '\n\r'):
        ctx.nontrivial(("flat", text))


def run_shard(ctx):
    # (A) enumeration x all offsets
    maxlen = 6 if ctx.tier == "thorough" else 5
    i = 0
    for L in range(maxlen + 1):
        for tup in itertools.product(ALPHA, repeat=L):
            i += 1
            if not ctx.mine(i):
                continue
            s = ''.join(tup)
            source = Source(s)
            case = {"kind": "enum", "text": s}
            ctx.case(len(s) + 1)
            for off in range(len(s) + 1):
                check_offset(ctx, source, s, off, case)
                if off and (s[off - 1] in '\n\r' or s[off - 1] in NONSPEC):
                    ctx.nontrivial((s, off))
            check_tokens(ctx, s, case)
            if i % 40009 == 0:
                ctx.sample({"part": "A", "text": s, "offsets": len(s) + 1})
    # (B) generated / mutated sources: syntax errors, token line/col, rendering under offsets
    rng = ctx.rng
    n = ctx.n(30000, 450000)
    for k in range(n):
        fa = rng.random() < 0.2
        s = src.gen_source(rng, rng.choice(['document', 'exec', 'sdl']), frag_args=fa, max_depth=2)
        flags = {"experimental_fragment_arguments": True} if fa else {}
        r = rng.random()
        if r < 0.75:
            s = mut.mutate(rng, s, lone=False)
        if r < 0.1:
            # force an error at interesting places: first column, after CR / CRLF, after a block string, long lines
            s = s + rng.choice(['\n?', '\r?', '\r\n?', '\n\n  ?', '"""\na\r\nb\r"""\n?', ' ' * 130 + '?', '\u2028?', '\x0c\n?', '\x85?'])
        case = {"kind": "source", "text": s, "flags": flags}
        ctx.case()
        check_tokens(ctx, s, case)
        if check_syntax_error(ctx, s, rng, case, flags) and any(c in s for c in '\n\r'):
            ctx.nontrivial(("src", s))
        if k % 3 == 0:
            check_node_errors(ctx, s, rng, case, flags)
        if len(s) < 40:
            source = Source(s)
            for off in range(len(s) + 1):
                check_offset(ctx, source, s, off, case)
        if k % 1499 == 0:
            ctx.sample({"part": "B", "text": s[:200]})
    # (C) flat queries: validation and execution error locations under hostile layout
    for k in range(ctx.n(12000, 150000)):
        ctx.case()
        check_flat(ctx, rng)
        if k % 2999 == 0:
            t, f = flat_query(ctx.sub_rng("sample", k))
            ctx.sample({"part": "C", "text": t, "fields": f})


def replay(ctx, case):
    import random
    s = case["text"]
    if case["kind"] in ("enum", "source"):
        source = Source(s)
        for off in range(len(s) + 1):
            check_offset(ctx, source, s, off, case)
        check_tokens(ctx, s, case)
        for seed in range(8):
            check_syntax_error(ctx, s, random.Random(seed), case, case.get("flags"))
    else:
        for seed in range(200):
            rng = random.Random(seed)
            check_flat(ctx, rng)
