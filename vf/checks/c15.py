"""C15 - input coercion and input validation agree on values, literals and variables."""
from __future__ import annotations

import json
import math
import re

from graphql import (GraphQLError, build_schema, is_enum_type, is_input_object_type, is_list_type, is_non_null_type, parse,
                     validate)
from graphql.execution.values import get_variable_values
from graphql.language import parse_value
from graphql.pyutils import Undefined
from graphql.utilities import coerce_input_literal, coerce_input_value
from graphql.utilities.validate_input_value import validate_input_literal, validate_input_value
from graphql.utilities.value_to_literal import value_to_literal
from graphql.validation import ValuesOfCorrectTypeRule

from ..gen import src, values
from ..worker import srepr

LEVEL = "exploration"
LEVEL_TEXT = ("Hundreds of thousands of (input type, Python value) and (input type, literal, variable map) pairs - types nest list/non-null over built-in "
              "scalars, enums, input objects with defaults, a recursive and a OneOf input object; values come from a hostile universe shaped toward and away "
              "from the type - are pushed through the real coercion, validation, value->literal and variable-coercion functions; agreement laws and a "
              "conformance predicate written from the spec judge every pair.")
LEVEL_NOTE = "trusted: the conformance predicate R7 in this file; laws need no model. Variables are only used at positions of their declared type (as validation would enforce)"
TECHNIQUE = "runtime monitoring: agreement laws (coerce <=> validate, value->literal->value, rule <=> coercion) + conformance predicate over generated types/values/literals"
RULE = ("types: 34 type expressions over Int Float String Boolean ID, an enum, input objects A (defaults, recursion via n, lists of A), One (@oneOf), B (required fields); values: G-val "
        "(bools, ints to 10^5000, int subclasses, IntEnum, floats incl. -0.0/nan/inf/subnormal, numeric-looking and non-ASCII-digit strings, bytes, containers, Undefined, objects) "
        "shaped toward the type with injected bad pieces; literals derived from values and drawn independently, const and with variables bound through the real variable coercion. "
        "Non-trivial: the value/literal is accepted, or is a container; distinct = (type, repr of value or literal text, variables).")
ASSUMPTIONS = ["a coerced result must be deep-equal between the value path and the value->literal->value path (NaN never is accepted)"]
REQUIRED_COUNTERS = ["value_agreement_checked", "literal_agreement_checked", "variable_literal_agreement_checked", "value_to_literal_roundtrips",
                     "rule_vs_coercion_checked", "variable_coercions_checked", "results_conformance_checked"]

TYPE_STRS = ['Int', 'Int!', 'Float', 'Float!', 'String', 'String!', 'Boolean', 'Boolean!', 'ID', 'ID!', 'E', 'E!', '[Int]', '[Int!]', '[Int]!', '[Int!]!',
             '[[Int]]', '[[Int!]!]!', '[String]', '[E!]', '[Float!]', '[ID]', '[Boolean!]!', 'A', 'A!', '[A]', '[A!]!', 'One', 'One!', '[One!]', 'B', 'B!', '[[A]]', '[[[E]]]']
SDL = '''
enum E { ADMIN USER GUEST }
input A { i: Int! = 3, s: String = "dflt", f: Float, b: Boolean, id: ID, e: E = USER, l: [Int!], ll: [[E]] = [[ADMIN], null], n: A, o: One, la: [A!], r: Int! }
input One @oneOf { a: Int, s: String, e: E, n: A, l: [Int] }
input B { x: Int!, y: [String!]!, z: B }
type Query { %s }
''' % ' '.join(f'f{i}(a: {t}): Int' for i, t in enumerate(TYPE_STRS))
_s = {}


def schema():
    if not _s:
        s = build_schema(SDL)
        # Python names for some fields (out_name, an extension of graphql-core): coerced results are keyed by them
        for tname, fname in (('One', 's'), ('One', 'a'), ('A', 'f'), ('A', 'l'), ('B', 'x')):
            f = s.type_map[tname].fields.get(fname)
            if f is not None:
                f.out_name = fname + '_out'
        _s['schema'] = s
        _s['types'] = [(ts, s.query_type.fields[f'f{i}'].args['a'].type, f'f{i}') for i, ts in enumerate(TYPE_STRS)]
    return _s['schema'], _s['types']


# ---------- R7: conformance of a coerced result ----------
def conforms(x, t):
    if is_non_null_type(t):
        return x is not None and conforms(x, t.of_type)
    if x is None:
        return True
    if is_list_type(t):
        return isinstance(x, list) and all(conforms(i, t.of_type) for i in x)
    if is_input_object_type(t):
        keys = {(f.out_name or k): f for k, f in t.fields.items()}
        if not isinstance(x, dict) or any(k not in keys for k in x):
            return False
        for k, f in keys.items():
            if k in x:
                if not conforms(x[k], f.type):
                    return False
            elif f.default is not None or is_non_null_type(f.type):
                return False            # defaults must be applied, required fields present
        if getattr(t, 'is_one_of', False):
            return len(x) == 1 and next(iter(x.values())) is not None
        return True
    n = t.name
    if n == 'Int':
        return isinstance(x, int) and not isinstance(x, bool) and -2**31 <= x < 2**31
    if n == 'Float':
        return isinstance(x, (int, float)) and not isinstance(x, bool) and math.isfinite(x)
    if n in ('String', 'ID'):
        return isinstance(x, str)
    if n == 'Boolean':
        return isinstance(x, bool)
    if is_enum_type(t):
        return any(x == ev.value for ev in t.values.values())
    return True


def deep_eq(a, b):
    if type(a) is not type(b) and not (isinstance(a, (int, float)) and isinstance(b, (int, float)) and not isinstance(a, bool) and not isinstance(b, bool)):
        return False
    if isinstance(a, dict):
        return list(a) == list(b) and all(deep_eq(a[k], b[k]) for k in a) if set(a) == set(b) else False
    if isinstance(a, list):
        return len(a) == len(b) and all(deep_eq(x, y) for x, y in zip(a, b))
    return a == b


def guarded(ctx, what, fn, case):
    try:
        return True, fn()
    except GraphQLError as e:
        ctx.violation(f"{what}-raises:GraphQLError", {"exception": str(e)[:200], **{k: srepr(v)[:200] for k, v in case.items()}}, case)
    except Exception as e:  # noqa: BLE001
        ctx.violation(f"{what}-raises:{type(e).__name__}", {"exception": repr(e)[:200], **{k: srepr(v)[:200] for k, v in case.items()}}, case)
    return False, None


def value_laws(ctx, ts, t, v):
    case = {"kind": "value", "type": ts, "value": v}
    ctx.count("value_agreement_checked")
    ok, c = guarded(ctx, "coerce_input_value", lambda: coerce_input_value(v, t), case)
    if not ok:
        return
    errs = []
    ok, _ = guarded(ctx, "validate_input_value", lambda: validate_input_value(v, t, lambda e, p: errs.append((e.message, list(p)))), case)
    if not ok:
        return
    accepted = c is not Undefined
    if accepted != (not errs):
        ctx.violation("value:coerce-" + ("accepts" if accepted else "rejects") + "-validate-" + ("reports" if errs else "silent"),
                      {"type": ts, "value": srepr(v)[:300], "coerced": srepr(c)[:200], "errors": errs[:2]}, case)
        return
    if not accepted:
        ctx.count("values_rejected_by_both")
        return
    ctx.count("values_accepted_by_both")
    ctx.count("results_conformance_checked")
    if not conforms(c, t):
        ctx.violation("value:result-does-not-conform", {"type": ts, "value": srepr(v)[:300], "coerced": srepr(c)[:300]}, case)
        return
    # value -> literal -> value
    ctx.count("value_to_literal_roundtrips")
    ok, lit = guarded(ctx, "value_to_literal", lambda: value_to_literal(v, t), case)
    if not ok:
        return
    if lit is None:
        ctx.violation("value-to-literal:none-for-accepted-value", {"type": ts, "value": srepr(v)[:300], "coerced": srepr(c)[:200]}, case)
        return
    ok, c2 = guarded(ctx, "coerce_input_literal", lambda: coerce_input_literal(lit, t), case)
    if ok and (c2 is Undefined or not deep_eq(c2, c)):
        ctx.violation("value-to-literal:roundtrip-differs", {"type": ts, "value": srepr(v)[:300], "via_value": srepr(c)[:200],
                                                              "via_literal": srepr(c2)[:200]}, case)
    ctx.nontrivial((ts, srepr(v)))


NAME_RE = re.compile(r'^[_A-Za-z][_0-9A-Za-z]*$')


def lit_text(v, enumish=False):
    """Own value -> literal text (None if not expressible)."""
    if v is None or v is Undefined:
        return 'null'
    if isinstance(v, bool):
        return 'true' if v else 'false'
    if isinstance(v, int):
        try:
            return str(int(v))
        except ValueError:
            return None
    if isinstance(v, float):
        if not math.isfinite(v):
            return None
        r = repr(v)
        return r
    if isinstance(v, str):
        if enumish and NAME_RE.match(v) and v not in ('true', 'false', 'null'):
            return v
        try:
            v.encode('utf-8')
        except UnicodeEncodeError:
            return None
        return json.dumps(str(v))
    if isinstance(v, (list, tuple)):
        parts = [lit_text(i, enumish) for i in v]
        return None if any(p is None for p in parts) else '[' + ', '.join(parts) + ']'
    if isinstance(v, dict):
        parts = []
        for k, x in v.items():
            p = lit_text(x, enumish)
            if p is None or not isinstance(k, str) or not NAME_RE.match(k):
                return None
            parts.append(f'{k}: {p}')
        return '{' + ', '.join(parts) + '}'
    return None


def literal_laws(ctx, ts, t, fname, text, s):
    case = {"kind": "literal", "type": ts, "literal": text}
    try:
        lit = parse_value(text)
    except Exception:  # noqa: BLE001
        ctx.count("literal_text_unparseable")
        return
    ctx.count("literal_agreement_checked")
    ok, c = guarded(ctx, "coerce_input_literal", lambda: coerce_input_literal(lit, t), case)
    if not ok:
        return
    errs = []
    ok, _ = guarded(ctx, "validate_input_literal", lambda: validate_input_literal(lit, t, lambda e, p: errs.append((e.message, list(p)))), case)
    if not ok:
        return
    accepted = c is not Undefined
    has_vars = '$' in text
    if not has_vars:
        if accepted != (not errs):
            ctx.violation("literal:coerce-" + ("accepts" if accepted else "rejects") + "-validate-" + ("reports" if errs else "silent"),
                          {"type": ts, "literal": text[:300], "coerced": srepr(c)[:200], "errors": errs[:2]}, case)
            return
        if accepted:
            ctx.count("results_conformance_checked")
            if not conforms(c, t):
                ctx.violation("literal:result-does-not-conform", {"type": ts, "literal": text[:300], "coerced": srepr(c)[:300]}, case)
                return
        # the validation rule accepts a constant argument exactly when its coercion succeeds
        ctx.count("rule_vs_coercion_checked")
        try:
            doc = parse('{ %s(a: %s) }' % (fname, text))
            rerrs = validate(s, doc, [ValuesOfCorrectTypeRule])
        except Exception as e:  # noqa: BLE001
            ctx.violation(f"rule-raises:{type(e).__name__}", {"type": ts, "literal": text[:300], "exception": repr(e)[:200]}, case)
            return
        if (not rerrs) != accepted:
            ctx.violation("rule:" + ("accepts" if not rerrs else "rejects") + "-coercion-" + ("succeeds" if accepted else "fails"),
                          {"type": ts, "literal": text[:300], "rule_errors": [e.message[:160] for e in rerrs][:2], "coerced": srepr(c)[:200]}, case)
            return
        if accepted or text[:1] in '[{':
            ctx.nontrivial((ts, text))


def position_types(t, out, prefix=''):
    """Nested positions of an input type where a variable may stand: [(description, type)]."""
    out.append(t)
    inner = t.of_type if is_non_null_type(t) else t
    if is_list_type(inner):
        position_types(inner.of_type, out)
    return out


def variable_literal_laws(ctx, rng, ts, t, s):
    """Literal with variables at positions of their declared type, bound through the real variable coercion."""
    decls = []

    def lit(tt, depth):
        inner = tt.of_type if is_non_null_type(tt) else tt
        if depth > 0 and rng.random() < 0.35 or (depth == 0 and rng.random() < 0.2):
            name = f'v{len(decls)}'
            declared = str(tt) if rng.random() < 0.7 or not is_non_null_type(tt) else str(tt.of_type)
            decls.append((name, declared, tt))
            return '$' + name
        if not is_non_null_type(tt) and rng.random() < 0.1:
            return 'null'
        if is_list_type(inner):
            return '[' + ', '.join(lit(inner.of_type, depth + 1) for _ in range(rng.randint(0, 3))) + ']'
        if is_input_object_type(inner) and depth < 3:
            parts = []
            names = list(inner.fields)
            if getattr(inner, 'is_one_of', False):
                names = [rng.choice(names)]
            for k in names:
                f = inner.fields[k]
                req = is_non_null_type(f.type) and f.default is None
                if req or rng.random() < 0.35 or getattr(inner, 'is_one_of', False):
                    parts.append(f'{k}: {lit(f.type, depth + 1)}')
            return '{' + ', '.join(parts) + '}'
        v = values.shaped(rng, inner, 3, 0.1)
        return lit_text(v, is_enum_type(inner)) or 'null'
    text = lit(t, 0)
    if not decls:
        return
    opdoc = 'query (' + ', '.join(f'${n}: {d}' + (' = ' + (lit_text(values.shaped(rng, tt, 2, 0), True) or 'null') if rng.random() < 0.2 else '')
                                  for n, d, tt in decls) + ') { f0 }'
    inputs = {}
    for n, d, tt in decls:
        r = rng.random()
        if r < 0.2:
            continue
        inputs[n] = None if r < 0.3 else values.shaped(rng, tt, 2, 0.05)
    case = {"kind": "variable-literal", "type": ts, "literal": text, "operation": opdoc, "inputs": inputs}
    try:
        vdefs = parse(opdoc).definitions[0].variable_definitions
        lnode = parse_value(text)
    except Exception:  # noqa: BLE001
        ctx.count("variable_case_unparseable")
        return
    ctx.count("variable_coercions_checked")
    ok, vv = guarded(ctx, "get_variable_values", lambda: get_variable_values(s, vdefs, inputs), case)
    if not ok:
        return
    if isinstance(vv, list):
        if not vv:
            ctx.violation("variables:empty-error-list", {"operation": opdoc, "inputs": srepr(inputs)[:300]}, case)
        ctx.count("variable_maps_rejected")
        return
    # every provided or defaulted variable has a value
    coerced = getattr(vv, 'coerced', None)
    if isinstance(coerced, dict):
        for (n, d, tt), vd in zip(decls, vdefs):
            if ((n in inputs and inputs[n] is not Undefined) or vd.default_value is not None) and n not in coerced:
                ctx.violation("variables:provided-variable-has-no-value", {"operation": opdoc, "inputs": srepr(inputs)[:300], "variable": n}, case)
                return
    if not coerced:
        return  # with an empty map validation would run statically, which is a different question
    ctx.count("variable_literal_agreement_checked")
    # a third of the cases put the literal into a fragment that declares some of the variables itself (experimental
    # fragment variables: declared with or without default, given by the spread as a constant, as an operation variable,
    # or not at all - in which case the operation's variable of the same name must stay hidden)
    fvv = None
    if rng.random() < 0.33:
        shadow = [d for d in decls if rng.random() < 0.6] or decls[:1]
        fdefs, fargs = [], []
        for n, d, tt in shadow:
            fdefs.append(f'${n}: {d}' + ((' = ' + (lit_text(values.shaped(rng, tt, 2, 0), True) or 'null')) if rng.random() < 0.3 else ''))
            r = rng.random()
            if r < 0.4:
                continue                                    # not given by the spread
            if r < 0.7:
                fargs.append(f'{n}: {lit_text(values.shaped(rng, tt, 2, 0.05), True) or "null"}')
            else:
                same = [m for m, d2, _ in decls if d2 == d]
                fargs.append(f'{n}: ${rng.choice(same)}')
        fdoc = f'{{ ...F{"(" + ", ".join(fargs) + ")" if fargs else ""} }} fragment F({", ".join(fdefs)}) on Query {{ f0 }}'
        case["fragment_scope"] = fdoc
        try:
            from graphql.execution.get_variable_signature import get_variable_signature
            from graphql.execution.values import get_fragment_variable_values
            fd = parse(fdoc, experimental_fragment_arguments=True)
            spread = fd.definitions[0].selection_set.selections[0]
            sigs = {}
            for vd in fd.definitions[1].variable_definitions:
                sg = get_variable_signature(s, vd)
                if isinstance(sg, GraphQLError):
                    raise sg
                sigs[vd.variable.name.value] = sg
            fvv = get_fragment_variable_values(spread, sigs, vv, None)
            ctx.count("fragment_scopes_built")
        except GraphQLError:
            fvv = None          # the scope itself is invalid (e.g. an ill-typed spread argument): not this law's business
            ctx.count("fragment_scopes_rejected")
        except Exception as e:  # noqa: BLE001
            ctx.violation(f"fragment-scope-crash:{type(e).__name__}", {"scope": fdoc[:300], "exception": repr(e)[:200]}, case)
            return
    ok, c = guarded(ctx, "coerce_input_literal", lambda: coerce_input_literal(lnode, t, vv, fvv), case)
    if not ok:
        return
    errs = []
    ok, _ = guarded(ctx, "validate_input_literal", lambda: validate_input_literal(lnode, t, lambda e, p: errs.append((e.message, list(p))), vv, fvv), case)
    if not ok:
        return
    accepted = c is not Undefined
    if not accepted and not errs and lnode.kind == 'variable':
        # a bare variable without a runtime value at a nullable position: "no value" (the caller falls back to a
        # default or omits the argument), neither a result nor an error
        ctx.count("bare_variable_without_value")
        return
    if accepted != (not errs):
        ctx.violation("variable-literal:coerce-" + ("accepts" if accepted else "rejects") + "-validate-" + ("reports" if errs else "silent"),
                      {"type": ts, "literal": text[:300], "operation": opdoc[:300], "inputs": srepr(inputs)[:300], "coerced": srepr(c)[:200], "errors": errs[:2]}, case)
        return
    if accepted:
        ctx.count("results_conformance_checked")
        if not conforms(c, t):
            ctx.violation("variable-literal:result-does-not-conform", {"type": ts, "literal": text[:300], "inputs": srepr(inputs)[:300], "coerced": srepr(c)[:300]}, case)
            return
    ctx.nontrivial((ts, text, srepr(inputs)))


def run_shard(ctx):
    s, types = schema()
    rng = ctx.rng
    names = ['ADMIN', 'USER', 'GUEST', 'i', 's', 'f', 'b', 'id', 'e', 'l', 'll', 'n', 'o', 'la', 'r', 'a', 'x', 'y', 'z', 'NOPE']
    for k in range(ctx.n(400000, 8000000)):
        ts, t, fname = types[rng.randrange(len(types))]
        mode = rng.random()
        ctx.case()
        if mode < 0.45:
            v = values.shaped(rng, t, 0, rng.choice([0.0, 0.15, 0.5]))
            value_laws(ctx, ts, t, v)
            if k % 40009 == 0:
                ctx.sample({"law": "value", "type": ts, "value": srepr(v)[:200]})
        elif mode < 0.8:
            if rng.random() < 0.6:
                v = values.shaped(rng, t, 0, rng.choice([0.0, 0.15]))
                inner = t
                while is_non_null_type(inner) or is_list_type(inner):
                    inner = inner.of_type
                text = lit_text(v, enumish=is_enum_type(inner) or (is_input_object_type(inner) and rng.random() < 0.7))
                if text is None:
                    continue
                if '{' in text and rng.random() < 0.1:
                    # the same input field given twice (uniqueness is another rule's business: coercion and validation
                    # must still agree with each other on such a literal)
                    m = re.search(r'\{\s*([A-Za-z_][0-9A-Za-z_]*)\s*:', text)
                    if m:
                        dup = f' {m.group(1)}: {rng.choice(["null", "1", chr(34) + "x" + chr(34), "n", "true", "[]", "{}"])} '
                        text = text[:m.start() + 1] + dup + text[m.start() + 1:] if rng.random() < 0.5 else \
                            text[:m.start() + 1] + text[m.start() + 1:].replace('}', dup + '}', 1)
                        ctx.count("literals_with_a_duplicated_field")
            else:
                g = src.SrcGen(rng, names=names, keywords=0.0, hostile=0.1, max_depth=3)
                g.value(True)
                text = src.render(rng, g.out, 'plain')
            literal_laws(ctx, ts, t, fname, text, s)
            if k % 40009 == 1:
                ctx.sample({"law": "literal", "type": ts, "literal": text[:200]})
        else:
            variable_literal_laws(ctx, rng, ts, t, s)


def replay(ctx, case):
    s, types = schema()
    ts, t, fname = next(x for x in types if x[0] == case["type"])
    if case["kind"] == "literal":
        literal_laws(ctx, ts, t, fname, case["literal"], s)
    elif case["kind"] == "value":
        value_laws(ctx, ts, t, case["value"])
    else:
        print("variable-literal cases are replayed by re-running the shard seed")
