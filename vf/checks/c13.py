"""C13 - a document that passes validation cannot go wrong at execution time."""
from __future__ import annotations

import json
import random

from graphql import GraphQLError, execute_sync, parse, print_ast, validate
from graphql.execution.values import get_variable_values
from graphql.language import OperationDefinitionNode

from ..gen import docmut, src
from ..gen.data import make_resolver, make_value
from ..gen.doc import DocGen
from ..gen.schemas import rich
from ..ref.executor import Ref
from ..worker import srepr
from .c01 import HOSTILE_VALUES

LEVEL = "exploration"
LEVEL_TEXT = ("Documents accepted by the real validate() - type-directed ones, AST mutants of them that validation still accepts (variables in list / "
              "non-null / input-field positions, default interplay, OneOf, spreads on abstract types, merged fields) and grammar-random ones - are executed by "
              "the real executor with variable maps the real variable coercion accepts, over conforming and over faulty data; an independent specification "
              "executor (R3) attributes every expected error to a data fault or to the one run-time exemption by *position*; any other error, any shape "
              "difference, and any coercion failure R3 meets in an accepted document is a violation.")
LEVEL_NOTE = "trusted: R3 and its structural classification of the null-variable exemption (position or variable has a default); message texts are never inspected"
TECHNIQUE = "runtime monitoring: differential oracle (specification executor with error attribution) over validator-accepted documents incl. accepted mutants"
RULE = ("accepted = validate() returns [] and get_variable_values returns no errors; each accepted (document, variables) is run with conforming data (fault rate 0) "
        "and with faulty data (rate .15). Non-trivial: the document is an accepted mutant or grammar-random document, or uses >= 1 variable; distinct = (document text, variables).")
ASSUMPTIONS = ["'conforming data' = the G-data function with fault rate 0 (values of the declared types, possible runtime types for abstract types)"]
REQUIRED_COUNTERS = ["accepted_documents", "accepted_mutants", "conforming_runs_compared", "faulty_runs_compared", "variable_maps_accepted"]


def pick_variables(rng, g_valid, declared):
    k = rng.random()
    if k < 0.5:
        return dict(g_valid)
    out = {}
    for name in declared:
        r = rng.random()
        if r < 0.25:
            continue
        if r < 0.6 and name in g_valid:
            out[name] = g_valid[name]
        elif r < 0.8:
            out[name] = None
        else:
            out[name] = rng.choice(HOSTILE_VALUES)
    return out


def run_with_is_type_of(doc, variables, vf, seed):
    import random as _random
    from graphql import execute
    from ..gen.schemas import rich_is_type_of
    from ..mon import aharness
    from ..mon.loop import Run, Scheduler
    schema = rich_is_type_of(aharness.is_type_of_factory)
    sched = Scheduler(_random.Random(seed), policy=['fifo', 'lifo', 'random'][seed % 3])
    run = Run(sched)
    hz = aharness.Harness(sched, vf, seed, p_async=0.3, p_item_async=0.0, p_iter=0.0, p_type_async=0.5, schema=schema, hide_typename=True)
    aharness._current[0] = hz

    async def main():
        r = execute(schema, doc, None, variable_values=variables, field_resolver=hz.resolver)
        if hasattr(r, '__await__'):
            r = await r
        return r
    try:
        run.drive(main)
        if run.exception is not None:
            raise run.exception
        if run.deadlock:
            raise RuntimeError('logical deadlock')
        return run.result
    finally:
        run.close()


def compare_run(ctx, schema, doc, case, variables, fault_rate, counter):
    vf = make_value(schema, case["seed"], fault_rate)
    calls = []
    ref = Ref(schema, doc, vf, variables).run()
    try:
        if schema is rich() and case["seed"] % 6 == 5 and fault_rate == 0 and not ref.get("request_error") and not ref["error_paths"]:
            # (only when the reference run is free of errors: with injected faults - or with the run-time exemption of a
            # null variable - and awaitables, *which* of several errors is reported legitimately depends on the completion
            # order (C03/C07), so the exact comparison below would not be sound)
            # abstract types resolved through is_type_of (no __typename on the values, no type resolver), some of the
            # answers awaitable: run on the controlled loop, first-come-first-served
            res = run_with_is_type_of(doc, variables, vf, case["seed"])
            ctx.count("runs_resolving_types_through_is_type_of")
        else:
            res = execute_sync(schema, doc, None, variable_values=variables, field_resolver=make_resolver(vf, calls))
    except Exception as e:  # noqa: BLE001
        ctx.violation(f"execute-crash:{type(e).__name__}", {"source": case["source"][:500], "variables": srepr(variables)[:300], "exception": repr(e)[:200]}, case)
        return
    ctx.count(counter)
    base = {"source": case["source"][:600], "variables": srepr(variables)[:300], "origin": case["origin"], "fault_rate": fault_rate}
    if ref.get("request_error"):
        # variables were accepted by the library's own coercion, so the request must not fail as a whole unless R3 disagrees on acceptance:
        if res.data is None and res.errors and all(e.path is None for e in res.errors):
            ctx.count("request_errors_agreed")
            return
        ctx.violation("variables-accepted-but-R3-rejects", {**base, "response": json.dumps(res.formatted, default=repr)[:400]}, case)
        return
    if res.data is None and res.errors and all(e.path is None for e in res.errors) and None not in ref["error_paths"]:
        ctx.violation("request-error-after-acceptance", {**base, "errors": [e.message for e in res.errors][:3]}, case)
        return
    if ref.get("merge_conflicts"):
        ctx.violation("accepted-document-merges-different-fields", {**base, "conflicts": ref["merge_conflicts"][:3]}, case)
        return
    if ref["invalid_error_paths"]:
        ctx.violation("accepted-document-fails-input-coercion", {**base, "paths": ref["invalid_error_paths"][:3],
                                                                 "impl_errors": [(e.message[:120], e.path) for e in res.errors or []][:3]}, case)
        return
    ep = sorted(json.dumps(e.path) for e in res.errors or [])
    rp = sorted(json.dumps(p) for p in ref["error_paths"])
    if ep != rp:
        extra = [p for p in ep if p not in rp]
        mech = "unattributable-error" if extra else "expected-error-missing"
        ctx.violation(mech, {**base, "impl_error_paths": ep[:6], "R3_error_paths": rp[:6],
                             "messages": [e.message[:160] for e in res.errors or [] if json.dumps(e.path) in extra][:3]}, case)
        return
    if fault_rate == 0:
        allowed = {json.dumps(p) for p in ref["exempt_error_paths"]}
        bad = [p for p in ep if p not in allowed]
        if bad:
            ctx.violation("error-over-conforming-data", {**base, "paths": bad[:4], "messages": [e.message[:160] for e in res.errors or []][:3]}, case)
            return
        if ep:
            ctx.count("exemption_errors_seen")
    if json.dumps(res.data) != json.dumps(ref["data"]):
        ctx.violation("shape-mismatch", {**base, "impl": json.dumps(res.data)[:500], "R3": json.dumps(ref["data"])[:500]}, case)


def check_doc(ctx, schema, text, origin, rng, g_valid=None):
    case = {"source": text, "origin": origin, "seed": rng.getrandbits(32)}
    try:
        doc = parse(text)
    except GraphQLError:
        return
    ctx.case()
    try:
        if validate(schema, doc):
            ctx.count("rejected_by_validate")
            return
    except Exception:  # noqa: BLE001  (C12's business)
        return
    ops = [d for d in doc.definitions if isinstance(d, OperationDefinitionNode)]
    if len(ops) != 1 or ops[0].operation.value == 'subscription':
        ctx.count("skipped_multi_operation_or_subscription")
        return
    ctx.count("accepted_documents")
    if origin != "G-doc":
        ctx.count("accepted_mutants")
    ctx.label("accepted_origins", origin)
    declared = [vd.variable.name.value for vd in ops[0].variable_definitions or ()]
    r = random.Random(case["seed"])
    for _ in range(2):
        variables = pick_variables(r, g_valid or {}, declared)
        try:
            coerced = get_variable_values(schema, ops[0].variable_definitions or (), variables)
        except Exception as e:  # noqa: BLE001
            ctx.violation(f"variable-coercion-crash:{type(e).__name__}", {"source": text[:400], "variables": srepr(variables)[:300]}, case)
            continue
        if isinstance(coerced, list):
            ctx.count("variable_maps_rejected")
            continue
        ctx.count("variable_maps_accepted")
        c2 = {**case, "variables": variables}
        compare_run(ctx, schema, doc, c2, variables, 0.0, "conforming_runs_compared")
        compare_run(ctx, schema, doc, c2, variables, 0.15, "faulty_runs_compared")
        if origin != "G-doc" or declared:
            ctx.nontrivial((text, srepr(variables)))


REQUIRED_ARGUMENT_DOCS = [
    # a field that needs an argument on one type and none on another type (Query.node(id: ID!) / User.node, Query.search(term:
    # String!) / User.search): leaving the argument out must be rejected wherever the other field is used first or last
    '{ me { node { id } } node { id } }', '{ node { id } me { node { id } } }',
    '{ me { search { __typename } } search { __typename } }', '{ search { __typename } users { search { __typename } } }',
    '{ me { ...A } ...B } fragment A on User { node { id } } fragment B on Query { node { id } }',
    '{ ...B me { ...A } } fragment B on Query { node { id } } fragment A on User { node { id } }',
    '{ me { ...A } ...B } fragment B on Query { search { __typename } } fragment A on User { search { __typename } }',
    '{ users { node { id } best { node { id } } } x: node { id } y: node(id: 1) { id } }',
    'mutation { setName(name: "n") { node { id } search { __typename } } rename { id } }',
    '{ me { node { ... on User { search { __typename } } } } search(limit: 2) { __typename } }',
]


def run_shard(ctx):
    from .c02 import generated_schema
    rich_schema = rich()
    vocabs = {id(rich_schema): docmut.vocabulary(rich_schema)}
    rng = ctx.rng
    if ctx.shard == 0:
        for text in REQUIRED_ARGUMENT_DOCS:
            ctx.case()
            ctx.count("required_argument_documents")
            check_doc(ctx, rich_schema, text, "same field name with and without a required argument", rng)
    for k in range(ctx.n(30000, 500000)):
        schema = rich_schema
        if k % 4 == 3:
            gs = generated_schema((ctx.seed * 7919 + ctx.shard * 104729 + k) % 4000)
            if gs is not None:
                schema = gs
                ctx.count("documents_on_generated_schemas")
        # (generated schemas live in a bounded cache: never key anything by their id())
        vocab = vocabs[id(rich_schema)] if schema is rich_schema else docmut.vocabulary(schema)
        g = DocGen(schema, rng, ops=('query', 'query', 'mutation'), p_var=0.45, p_boundary=0.25)
        text = g.gen()
        origin = "G-doc"
        m = rng.random()
        if m < 0.6:
            try:
                tree = parse(text, no_location=True)
                names = []
                for _ in range(rng.randint(1, 2)):
                    t2, name = docmut.mutate_doc(rng, tree, vocab)
                    if t2 is not None:
                        tree = t2
                        names.append(name)
                if names:
                    text = print_ast(tree)
                    origin = "+".join(names)
            except GraphQLError:
                pass
        elif m < 0.7 and schema is rich_schema:
            text = src.gen_source(rng, 'exec', names=['me', 'users', 'id', 'name', 'echo', 'i', 'l', 'o', 'req', 'User', 'Query', 'Filter', 'friends', 'first',
                                                      'best', 'v0', 'Int', 'nn', 'pets', 'Dog', 'Pet', 'barks'], max_depth=3, hostile=0.0, style='plain', keywords=0.0)
            origin = "G-src"
        check_doc(ctx, schema, text, origin, rng, g.variables())
        if k % 2999 == 0:
            ctx.sample({"origin": origin, "source": text[:400], "variables": srepr(g.variables())[:200]})
    colliding_docs(ctx, rng, ctx.n(12000, 200000))


def colliding_docs(ctx, rng, n):
    """Documents from the field-merge generator (every field exists, aliases collide): the accepted ones must execute without merging different fields."""
    from . import c14
    schema = c14.schema()
    for k in range(n):
        m = rng.random()
        text = c14.Gen(rng).doc() if m < 0.6 else (c14.template(rng) if m < 0.9 else c14.arg_template(rng))
        check_doc(ctx, schema, text, "colliding:" + ("gen" if m < 0.6 else "template"), rng, {"v": rng.choice([1, 2, None])})


def replay(ctx, case):
    schema = rich()
    if case.get("origin", "").startswith("colliding"):
        from . import c14
        schema = c14.schema()
    doc = parse(case["source"])
    if "variables" in case:
        compare_run(ctx, schema, doc, case, case["variables"], 0.0, "conforming_runs_compared")
        compare_run(ctx, schema, doc, case, case["variables"], 0.15, "faulty_runs_compared")
    else:
        class _R(random.Random):
            def getrandbits(self, k):
                return case["seed"]
        check_doc(ctx, schema, case["source"], case["origin"], _R(0), {})
