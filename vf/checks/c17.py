"""C17 - a schema survives printing to SDL and rebuilding."""
from __future__ import annotations

import random

from graphql import build_schema, print_schema, validate_schema
from graphql.utilities import find_schema_changes

from ..gen.schema import SchemaGen, build_programmatic, render_sdl
from ..ref import schema_canon as C

LEVEL = "exploration"
LEVEL_TEXT = ("Thousands of generated valid schema models (all type kinds, interface hierarchies, recursive / OneOf inputs, custom directives incl. deprecated "
              "ones, non-default root names, a type named Query that is not the root, adversarial descriptions and deprecation reasons, defaults of every input "
              "type) are realised as SDL-built and as programmatically assembled schemas (defaults as literals and as external values), printed by the real "
              "print_schema, rebuilt by the real build_schema, validated, re-printed and compared: identical text, no differences in a canonical description "
              "extracted by walking the schema objects, no differences against the generating model, no changes reported by find_schema_changes.")
LEVEL_NOTE = ("trusted: the canonical extraction/comparison (vf/ref/schema_canon.py) and the generator's own SDL renderer; a printed schema that contains a deprecated "
              "directive is rebuilt with experimental_directives_on_directive_definitions=True (the printed syntax is experimental)")
TECHNIQUE = "runtime monitoring: round-trip law (print/build fixed point) + structural comparator against the generating model over generated schemas"
RULE = ("schema models from G-schema, each in three realisations (build_schema of the harness-rendered SDL; constructors with literal defaults; constructors with external-value "
        "defaults). Non-trivial: the model has >= 1 description or default or deprecation containing a character outside [A-Za-z0-9 .] or has >= 6 types; distinct = (model SDL, realisation).")
ASSUMPTIONS = ["defaults are compared as normalised values, descriptions and deprecation reasons as exact text"]
REQUIRED_COUNTERS = ["schemas_round_tripped", "reprints_compared", "canonical_comparisons", "change_detector_runs"]


def classify(diffs):
    d = diffs[0]
    for key in ('description', 'deprecation', 'default', 'specified_by', 'one_of', 'interfaces', 'members', 'locations', 'repeatable', 'roots', 'order differs', 'names differ', 'type'):
        if key in d:
            return key.replace(' ', '-')
    return 'other'


def hostile(text):
    return any(not (c.isalnum() and c.isascii() or c in ' .') for c in text or '')


def nontrivial(m):
    if len(m['types']) >= 6:
        return True
    for t in m['types'].values():
        if hostile(t.get('desc')):
            return True
    return False


def check_schema(ctx, S, m, how, case, canon_model):
    has_dep_dir = any(d.get('deprecation') is not None for d in m['directives'].values())
    try:
        errs = validate_schema(S)
    except Exception as e:  # noqa: BLE001
        ctx.violation(f"validate-schema-crash:{type(e).__name__}", {"how": how, "exception": repr(e)[:200]}, case)
        return
    if errs:
        ctx.count("generated_schema_invalid")
        return
    cS = C.from_schema(S)
    ctx.count("canonical_comparisons")
    d0 = C.diff(canon_model, cS, ordered_types=False)
    if d0:
        ctx.violation(f"built-schema-differs-from-model:{classify(d0)}", {"how": how, "diffs": d0[:4]}, case)
        return
    try:
        p = print_schema(S)
    except Exception as e:  # noqa: BLE001
        ctx.violation(f"print-schema-crash:{type(e).__name__}", {"how": how, "exception": repr(e)[:200]}, case)
        return
    ctx.count("schemas_round_tripped")
    try:
        S2 = build_schema(p, experimental_directives_on_directive_definitions=has_dep_dir)
    except Exception as e:  # noqa: BLE001
        ctx.violation("rebuild-fails", {"how": how, "exception": str(e)[:300], "printed": p[:600]}, case)
        return
    try:
        errs2 = validate_schema(S2)
    except Exception as e:  # noqa: BLE001
        ctx.violation(f"validate-schema-crash:{type(e).__name__}", {"how": how + "+rebuilt", "exception": repr(e)[:200]}, case)
        return
    if errs2:
        ctx.violation("rebuilt-schema-invalid", {"how": how, "errors": [e.message[:160] for e in errs2][:3], "printed": p[:500]}, case)
        return
    ctx.count("reprints_compared")
    p2 = print_schema(S2)
    c2 = C.from_schema(S2)
    ctx.count("canonical_comparisons", 2)
    d1 = C.diff(cS, c2)
    d2 = C.diff(canon_model, c2, ordered_types=False)
    if d1 or d2:
        dd = d1 or d2
        mech = classify(dd)
        if mech == 'description' and any(c in p for c in '\x0b\x0c\x1c\x1d\x1e\x85' + chr(0x2028) + chr(0x2029)):
            mech = 'description:non-spec-line-separator'
        ctx.violation(f"rebuilt-schema-differs:{mech}", {"how": how, "diffs": dd[:4]}, case)
        return
    if p2 != p:
        i = next((i for i, (a, b) in enumerate(zip(p, p2)) if a != b), min(len(p), len(p2)))
        ctx.violation("reprint-differs", {"how": how, "at": i, "first": p[max(0, i - 60):i + 60], "second": p2[max(0, i - 60):i + 60]}, case)
        return
    ctx.count("change_detector_runs", 2)
    for a, b, tag in ((S, S2, "original->rebuilt"), (S2, S, "rebuilt->original")):
        try:
            ch = find_schema_changes(a, b)
        except Exception as e:  # noqa: BLE001
            ctx.violation(f"find-schema-changes-crash:{type(e).__name__}", {"how": how, "exception": repr(e)[:200]}, case)
            return
        if ch:
            ctx.violation("changes-reported-for-round-trip", {"how": how, "direction": tag, "changes": [str(c.description)[:160] for c in ch][:4]}, case)
            return


def run_case(ctx, seed, k=0):
    rng = random.Random(seed)
    depdir = rng.random() < 0.3
    m = SchemaGen(rng, adversarial=rng.choice([0.0, 0.3, 0.7]), deprecated_directives=depdir).model()
    sdl = render_sdl(m)
    case = {"seed": seed, "sdl": sdl}
    canon_model = C.from_model(m)
    realisations = []
    try:
        realisations.append(("sdl", build_schema(sdl, experimental_directives_on_directive_definitions=depdir)))
    except Exception as e:  # noqa: BLE001
        ctx.violation("build-of-generated-sdl-fails", {"exception": str(e)[:300], "sdl": sdl[:600]}, case)
    for mode in ('literal', 'value'):
        try:
            realisations.append((f"programmatic:{mode}", build_programmatic(m, mode)))
        except Exception as e:  # noqa: BLE001
            ctx.violation(f"programmatic-construction-fails:{type(e).__name__}", {"mode": mode, "exception": repr(e)[:300], "sdl": sdl[:400]}, case)
    if seed % 3 == 0:
        try:
            realisations.append(("programmatic:literal:subclassed", build_programmatic(m, 'literal', subclassed=True)))
        except Exception as e:  # noqa: BLE001
            ctx.violation(f"programmatic-construction-fails:{type(e).__name__}", {"mode": "subclassed", "exception": repr(e)[:300], "sdl": sdl[:400]}, case)
    for how, S in realisations:
        ctx.case()
        check_schema(ctx, S, m, how, {**case, "how": how}, canon_model)
        if nontrivial(m):
            ctx.nontrivial((sdl, how))
    if k % 499 == 0:
        ctx.sample({"seed": seed, "sdl": sdl[:700]})


def run_shard(ctx):
    base = ctx.seed * 7_000_003 + ctx.shard * 1_000_033
    for k in range(ctx.n(6000, 120000)):
        run_case(ctx, base + k, k)


def replay(ctx, case):
    run_case(ctx, case["seed"])
