"""C05 - the incremental payload stream obeys the delivery protocol."""
from __future__ import annotations

import asyncio
import itertools
import random

from ..mon.loop import Run, Scheduler, dfs_scripts
from ..ref.incremental import Assembler
from . import c04

LEVEL = "exploration"
LEVEL_TEXT = ("(A) every end-to-end run of generated @defer/@stream requests (schedules, early execution on/off, faults) is fed, payload by payload, to a protocol "
              "automaton written from the response format; (B) the real WorkQueue and IncrementalPublisher are driven directly with synthetic work graphs "
              "(groups with parents, tasks in 1..2 groups that succeed with nested work or fail, streams emitting batches / stopping / failing) whose every "
              "completion is a scheduler gate; for each graph ALL orders of the enabled actions are explored by DFS up to a cap, larger ones by seeded random "
              "walks; the automaton checks ids, targets, completion, nesting, item order and hasNext on what the publisher emits.")
LEVEL_NOTE = ("trusted: the automaton (vf/ref/incremental.py); part B constructs internal objects (DeliveryGroup, ExecutionGroup, ItemStream, Computation, WorkQueue, "
              "IncrementalPublisher) - if a refactoring changes those constructors, B reports unavailable and A alone decides")
TECHNIQUE = "runtime monitoring: protocol automaton over recorded payload streams; bounded-exhaustive schedule exploration (DFS) of the real scheduler on synthetic work graphs"
RULE = ("(A) as C04; (B) work graphs: 1-2 root groups, optional child group, 1-3 tasks each in 1-2 groups, outcome ok / fail / cancelled / ok-with-nested (child group + task, or stream), "
        "0-1 root stream with script in {[items,stop],[items,items,stop],[items,fail],[stop],[fail],[items+peek-stop]}; per graph DFS over all action orders (cap 150 quick / 1500 thorough). "
        "Non-trivial: the stream had >= 2 payloads; distinct = (graph or document, interleaving signature).")
ASSUMPTIONS = ["within one payload entries are processed in the order pending, incremental, completed"]
REQUIRED_COUNTERS = ["payload_streams_validated", "synthetic_traces_validated", "synthetic_graphs_explored"]

EXHAUSTIVE_SUBSPACE = "synthetic graphs with <= 5 scheduler actions: all orders"


# ---------------- part B: synthetic graphs on the real WorkQueue + IncrementalPublisher ----------------
def load_internals():
    from graphql.execution.incremental.computation import Computation
    from graphql.execution.incremental.incremental_executor import (DeliveryGroup, ExecutionGroup, ExecutionGroupValue, ItemStream,
                                                                    StreamItemValue)
    from graphql.execution.incremental.incremental_publisher import IncrementalPublisher
    from graphql.execution.incremental.work_queue import Work, WorkResult
    return locals()


class FakeQueue:
    """A StreamQueue whose every step is a scheduler gate."""

    def __init__(self, sched, label, script, I):
        self.sched, self.label, self.script, self.I = sched, label, script, I
        self.stopped = False
        self.aborted = 0
        self.n = 0

    async def batches(self):
        for k, step in enumerate(self.script):
            await self.sched.gate(f'{self.label}.step{k}:{step[0]}')
            if step[0] == 'items':
                out = []
                for _ in range(step[1]):
                    out.append(self.I['WorkResult'](self.I['StreamItemValue'](f'{self.label}:{self.n}', None), None))
                    self.n += 1
                if step[-1] == 'peek-stop':
                    self.stopped = True
                yield out
                if self.stopped:
                    return
            elif step[0] == 'fail':
                raise RuntimeError(f'{self.label} failed')
            else:
                self.stopped = True
                return
        self.stopped = True

    def is_stopped(self):
        return self.stopped

    def abort(self, reason=None):
        self.aborted += 1
        return None


class Ctx:
    abort_signal = None

    def __init__(self):
        self.cancelled = 0
        self.hook = 0

    def abort_error(self):
        return RuntimeError('aborted')

    async def cancel_incremental_work(self, reason=None):
        self.cancelled += 1

    def run_async_work_finished_hook(self):
        self.hook += 1


def graph_specs(rng, n, thorough):
    """Yield work-graph specifications (plain data)."""
    stream_scripts = [None, [('items', 1), ('stop',)], [('items', 2), ('items', 1), ('stop',)], [('items', 1), ('fail',)], [('stop',)], [('fail',)],
                      [('items', 2, 'peek-stop')]]
    outcomes = ['ok', 'fail', 'ok+child', 'ok+stream', 'cancel']
    for _ in range(n):
        ngroups = rng.choice([1, 1, 2])
        child = rng.random() < 0.5
        groups = [('G0', None)] + ([('G1', None)] if ngroups == 2 else []) + ([('C0', 'G0')] if child else [])
        names = [g for g, _ in groups]
        tasks = []
        for t in range(rng.randint(1, 3)):
            k = rng.choice([1, 1, 2]) if len(names) > 1 else 1
            tg = rng.sample(names, k)
            # the execution planner never puts a task into a group and into that group's own descendant
            if 'C0' in tg and 'G0' in tg:
                drop = rng.choice(['C0', 'G0'])
                tg = [x for x in tg if x != drop]
            tasks.append((f'T{t}', tg, rng.choice(outcomes)))
        # every group needs at least one task, otherwise it is pruned (fine, but keep it interesting)
        yield {'groups': groups, 'tasks': tasks, 'stream': rng.choice(stream_scripts), 'sync': rng.random() < 0.2}


def catalogue(thorough):
    """Systematic enumeration of small work graphs (bounded-exhaustive over the stated space)."""
    group_sets = [[('G0', None)], [('G0', None), ('G1', None)], [('G0', None), ('C0', 'G0')], [('G0', None), ('G1', None), ('C0', 'G0')]]
    streams = [None, [('items', 1), ('stop',)], [('items', 1), ('fail',)]] + ([[('items', 2, 'peek-stop')], [('fail',)]] if thorough else [])
    outcomes = ['ok', 'fail', 'ok+child', 'ok+stream']
    for groups in group_sets:
        names = [g for g, _ in groups]
        subsets = [[n] for n in names] + [[a, b] for a, b in itertools.combinations(names, 2) if {a, b} != {'G0', 'C0'}]
        choices = [(sub, o) for sub in subsets for o in outcomes]
        for ntasks in ((1, 2, 3) if thorough else (1, 2)):
            for combo in itertools.product(choices, repeat=ntasks):
                if ntasks == 3 and sum(1 for _, o in combo if o != 'ok') > 2:
                    continue
                for st in streams:
                    yield {'groups': groups, 'tasks': [(f'T{i}', list(sub), o) for i, (sub, o) in enumerate(combo)], 'stream': st, 'sync': False}


def run_graph(spec, script, rng, I):
    """One run of the real scheduler + publisher on a synthetic graph under a scripted/random schedule."""
    sched = Scheduler(rng, policy='scripted' if script is not None else 'random', script=script)
    run = Run(sched)
    G = {}
    nesting = {}
    from graphql.pyutils import Path as _Path
    for name, parent in spec['groups']:
        # G1 is a fragment declared one level deeper (at the object 'obj'), the others at the root
        gpath = _Path(None, 'obj', None) if name == 'G1' else None
        G[name] = I['DeliveryGroup'](gpath, name, G[parent] if parent else None)
        nesting[name] = {parent} if parent else set()
    counter = itertools.count()

    def make_task(tname, gnames, outcome, extra_groups=()):
        groups = [G[g] for g in gnames]

        def fn():
            async def body():
                await sched.gate(f'{tname}:{outcome}')
                return finish()
            if spec['sync'] and outcome == 'ok':
                return finish()
            return body()

        def finish():
            if outcome == 'fail':
                raise RuntimeError(f'{tname} failed')
            if outcome == 'cancel':
                # what the task sees when something it awaits is cancelled from outside: its own future ends up cancelled,
                # which is a failure of the task like any other
                raise asyncio.CancelledError
            work = None
            if outcome == 'ok+child':
                cname = f'N{next(counter)}'
                G[cname] = I['DeliveryGroup'](None, cname, groups[0])
                nesting[cname] = {gnames[0]} | nesting.get(gnames[0], set())
                ct = make_task(f'{tname}.n', [cname], 'ok')
                work = I['Work']([G[cname]], [ct], [])
            elif outcome == 'ok+stream':
                q = FakeQueue(sched, f'{tname}.s', [('items', 1), ('stop',)], I)
                from graphql.pyutils import Path
                st = I['ItemStream'](Path(None, 'list', None), f'{tname}.s', q, 0)
                work = I['Work']([], [], [st])
            vpath = ['obj'] if 'G1' in gnames else []
            value = I['ExecutionGroupValue'](groups, vpath, {f'k_{tname}': tname}, None)
            return I['WorkResult'](value, work)
        return I['ExecutionGroup'](groups, I['Computation'](fn), _Path(None, 'obj', None) if 'G1' in gnames else None)

    tasks = [make_task(*t) for t in spec['tasks']]
    streams = []
    if spec['stream']:
        from graphql.pyutils import Path
        streams.append(I['ItemStream'](Path(None, 'list', None), 'S0', FakeQueue(sched, 'S0', spec['stream'], I), 0))
    ctx = Ctx()
    pub = I['IncrementalPublisher']()
    asm = Assembler(nesting)
    out = {'payloads': 0}

    async def main():
        res = pub.build_response({'list': [], 'obj': {}}, None, I['Work'](list(G.values()), tasks, streams), ctx)
        asm.initial(res.initial_result.formatted)
        it = res.subsequent_results
        k = 0
        while True:
            await sched.gate(f'pull#{k}')
            try:
                p = await anext(it)
            except StopAsyncIteration:
                asm.end()
                break
            asm.subsequent(p.formatted)
            out['payloads'] += 1
            k += 1
            if k > 60:
                asm.bad('too-many-payloads')
                break
    run.drive(main)
    run.quiesce()
    res = {'deadlock': run.deadlock, 'exception': run.exception, 'asm': asm, 'trace': list(sched.trace), 'branching': list(sched.branching),
           'payloads': out['payloads'], 'hook': ctx.hook, 'cancelled': ctx.cancelled}
    run.close()
    return res


def part_b(ctx):
    try:
        I = load_internals()
    except Exception as e:  # noqa: BLE001
        ctx.count("part_b_unavailable")
        ctx.label("part_b_unavailable_reason", repr(e)[:100])
        return
    rng = ctx.rng
    cap = 1500 if ctx.tier == "thorough" else 30
    def all_specs():
        for i, spec in enumerate(catalogue(ctx.tier == "thorough")):
            if ctx.mine(i):
                ctx.count("catalogue_graphs_explored")
                yield spec
        yield from graph_specs(rng, ctx.n(300, 5000), ctx.tier == "thorough")
    for spec in all_specs():
        ctx.count("synthetic_graphs_explored")
        case = {"kind": "graph", "spec": spec}
        sigs = set()

        def judge(r, script):
            ctx.case()
            ctx.count("synthetic_traces_validated")
            sigs.add(tuple(r['trace']))
            c = {**case, "script": script, "trace": r['trace']}
            if r['exception'] is not None:
                if isinstance(r['exception'], (TypeError, AttributeError)) and 'unexpected keyword' in str(r['exception']):
                    ctx.count("part_b_unavailable")
                    return False
                ctx.violation(f"scheduler-raises:{type(r['exception']).__name__}", {"spec": spec, "exception": repr(r['exception'])[:200], "trace": r['trace'][-8:]}, c)
                return False
            if r['deadlock']:
                ctx.violation("logical-deadlock:synthetic-graph", {"spec": spec, "trace": r['trace'][-8:]}, c)
                return False
            if r['asm'].problems:
                mech, detail = r['asm'].problems[0]
                ctx.violation("protocol:" + mech, {"spec": spec, **detail, "events": r['asm'].events[-12:], "trace": r['trace'][-10:]}, c)
                return False
            if r['hook'] != 1:
                ctx.violation("publisher-cleanup-count", {"spec": spec, "hook_calls": r['hook']}, c)
                return False
            if r['payloads'] >= 2:
                ctx.nontrivial((repr(spec), tuple(r['trace'])))
            return True

        state = {'ok': True}

        def with_script(script):
            r = run_graph(spec, script, random.Random(0), I)
            if not judge(r, script):
                state['ok'] = False
                return []          # stop the enumeration for this graph
            return r['branching']
        n, complete = dfs_scripts(with_script, max_runs=cap)
        if complete and state['ok']:
            ctx.count("graphs_with_all_orders_explored")
        ctx.count("distinct_interleavings", len(sigs))
    ctx.sample({"part": "B", "example_spec": spec})


def run_shard(ctx):
    from ..mon import loop
    loop.selftest()
    base = ctx.seed * 17_000_023 + ctx.shard * 1_000_133
    for k in range(ctx.n(1000, 8000)):
        c04.check_request(ctx, base + k, k, protocol=True, merge=False)
    # the stream clause ("in list order, without gaps or repeats") gets its own share: the stream template family only
    for k in range(ctx.n(600, 4000)):
        ctx.count("stream_family_requests")
        c04.check_request(ctx, (base + k) * 11 + 6, k + 1, protocol=True, merge=False)
    # ... and so do the defer template families (list-nested, overlapping, split, shared-fragment): wrong parent links
    # between fragments show as protocol violations only under particular completion orders
    for k in range(ctx.n(500, 3500)):
        ctx.count("defer_family_requests")
        c04.check_request(ctx, (base + k) * 11 + (7, 7, 9, 10, 5, 3, 2, 4)[k % 8], k + 1, protocol=True, merge=False)
    part_b(ctx)


def extra_coverage(counters, tier):
    return {"exhaustive": False, "exhaustive_subspace": EXHAUSTIVE_SUBSPACE,
            "graphs_fully_enumerated": counters.get("graphs_with_all_orders_explored", 0)}


def replay(ctx, case):
    if case.get("kind") == "graph":
        I = load_internals()
        r = run_graph(case["spec"], case.get("script"), random.Random(0), I)
        if r['asm'].problems:
            mech, detail = r['asm'].problems[0]
            ctx.violation("protocol:" + mech, {**detail, "events": r['asm'].events[-12:]}, case)
        if r['deadlock']:
            ctx.violation("logical-deadlock:synthetic-graph", {"trace": r['trace'][-8:]}, case)
    else:
        c04.check_request(ctx, case["seed"], 1, protocol=True, merge=False)
