"""C20 - schema validation reports every type-system violation and never crashes."""
from __future__ import annotations

import copy
import random

from graphql import GraphQLError, build_schema, graphql_sync, validate_schema

from ..gen import mut, src
from ..gen.schema import BUILTIN, SchemaGen, build_programmatic, nullable, render_sdl
from ..ref import schema_rules as R8

LEVEL = "exploration"
LEVEL_TEXT = ("Generated valid schema models, all single and sampled double rule-violating mutations of them (root types, interface implementation incl. "
              "arguments and covariance, union members, empty types, input/output positions, reserved names, invalid defaults, unbreakable input cycles, "
              "default-value cycles, OneOf restrictions) plus rule-preserving near-misses, realised through SDL (with and without SDL pre-validation) and "
              "through constructors, and schemas built from grammar-random / mutated SDL are validated by the real validate_schema; an independent rule model "
              "(R8) decides validity of every model; a request against every invalid schema must return exactly the validation errors without executing a resolver.")
LEVEL_NOTE = "trusted: R8 (vf/ref/schema_rules.py) for the rule classes the property lists; mutation classes outside that list are not generated, so R8 never rules on them"
TECHNIQUE = "runtime monitoring: differential oracle (type-system rule model) over rule-violating schema mutations; boundary exception monitor; request-on-invalid-schema monitor"
RULE = ("models from G-schema; 32 named mutators (28 rule-violating incl. deprecated required arguments / input fields, implementation-only deprecation and duplicate interfaces / union members, 4 rule-preserving near-misses), one or two per case; each model realised as SDL -> build_schema (assume_valid_sdl on/off) "
        "and as constructor calls with literal defaults and, unless a default is invalid, with external-value defaults; valid models with one ill-typed external-value default; grammar-random and character-mutated SDL only for the never-raises clause. Non-trivial: the model is a mutant; distinct = (model SDL, realisation).")
ASSUMPTIONS = ["a schema 'can be constructed' when build_schema / the GraphQLSchema constructor returns; construction failures are counted, not judged"]
REQUIRED_COUNTERS = ["verdicts_compared_with_R8", "invalid_models_checked", "valid_models_checked", "requests_against_invalid_schemas", "random_sdl_schemas_validated",
                     "schemas_with_value_style_defaults", "ill_typed_value_defaults_checked"]


# ------------- mutators on models: (name, function(rng, M) -> bool applied) -------------
def _oi(M):
    return [n for n, t in M['types'].items() if t['kind'] in ('object', 'interface')]


def _impl_pairs(M):
    """(implementer, interface, field) for fields an interface demands."""
    out = []
    for n, t in M['types'].items():
        if t['kind'] in ('object', 'interface'):
            for i in t['interfaces']:
                it = M['types'].get(i)
                if it and it['kind'] == 'interface':
                    for fn in it['fields']:
                        if fn in t['fields']:
                            out.append((n, i, fn))
    return out


def _kinds(M, k):
    return [n for n, t in M['types'].items() if t['kind'] == k]


def _input_values(M):
    out = []
    for n in _oi(M):
        for f in M['types'][n]['fields'].values():
            out += list(f['args'].values())
    for n in _kinds(M, 'input'):
        if not M['types'][n].get('one_of'):
            out += list(M['types'][n]['fields'].values())
    for d in M['directives'].values():
        out += list(d['args'].values())
    return out


def m_no_query(r, M):
    M['roots']['query'] = None
    return True


def m_root_not_object(r, M):
    c = _kinds(M, 'input') + _kinds(M, 'enum') + _kinds(M, 'interface') + _kinds(M, 'union')
    if not c:
        return False
    M['roots'][r.choice(['query', 'mutation', 'subscription'])] = r.choice(c)
    return True


def m_same_root(r, M):
    if not M['roots']['query']:
        return False
    M['roots'][r.choice(['mutation', 'subscription'])] = M['roots']['query']
    return True


def m_iface_missing_field(r, M):
    p = _impl_pairs(M)
    if not p:
        return False
    n, i, fn = r.choice(p)
    if len(M['types'][n]['fields']) < 2:
        return False
    del M['types'][n]['fields'][fn]
    return True


def m_iface_field_type(r, M):
    p = _impl_pairs(M)
    if not p:
        return False
    n, i, fn = r.choice(p)
    f = M['types'][n]['fields'][fn]
    k = r.random()
    if k < 0.4 and f['type'][0] == 'nn':
        f['type'] = f['type'][1]                       # nullable where the interface demands non-null
    elif k < 0.7:
        f['type'] = ('l', f['type'])
    else:
        f['type'] = ('n', r.choice(['Int', 'String', 'Boolean']))
        if M['types'][i]['fields'][fn]['type'] == f['type']:
            f['type'] = ('l', f['type'])
    return True


def m_iface_covariant_ok(r, M):
    p = [(n, i, fn) for n, i, fn in _impl_pairs(M) if M['types'][n]['fields'][fn]['type'][0] != 'nn']
    if not p:
        return False
    n, i, fn = r.choice(p)
    # only safe if nothing implements n in turn with this field
    if any(n in t.get('interfaces', []) for t in M['types'].values()):
        return False
    M['types'][n]['fields'][fn]['type'] = ('nn', M['types'][n]['fields'][fn]['type'])
    return True


def m_iface_missing_arg(r, M):
    p = [(n, i, fn) for n, i, fn in _impl_pairs(M) if M['types'][i]['fields'][fn]['args'] and M['types'][n]['fields'][fn]['args']]
    if not p:
        return False
    n, i, fn = r.choice(p)
    an = r.choice(list(M['types'][i]['fields'][fn]['args']))
    M['types'][n]['fields'][fn]['args'].pop(an, None)
    return True


def m_iface_arg_type(r, M):
    p = [(n, i, fn) for n, i, fn in _impl_pairs(M) if M['types'][i]['fields'][fn]['args'] and M['types'][n]['fields'][fn]['args']]
    if not p:
        return False
    n, i, fn = r.choice(p)
    an = r.choice(list(M['types'][i]['fields'][fn]['args']))
    a = M['types'][n]['fields'][fn]['args'].get(an)
    if a is None:
        return False
    if a['type'][0] == 'nn':
        a['type'] = a['type'][1]
    else:
        a['type'] = ('nn', a['type'])
        a['deprecation'] = None if a['default'] is None else a['deprecation']
        if a['default'] == 'null':
            a['default'] = None
    return True


def m_iface_arg_wrapper_kind(r, M):
    """Same named type, same number of wrappers, but a list where the interface has non-null (or the other way round)."""
    p = [(n, i, fn, an) for n, i, fn in _impl_pairs(M) for an, ia in M['types'][i]['fields'][fn]['args'].items()
         if ia['type'][0] != 'n' and an in M['types'][n]['fields'][fn]['args']]
    if not p:
        return False
    n, i, fn, an = r.choice(p)
    a = M['types'][n]['fields'][fn]['args'][an]

    def depth(t):
        return 0 if t[0] == 'n' else 1 + depth(t[1])

    def swap(t, k):
        if k == 0:
            return ('l' if t[0] == 'nn' else 'nn', t[1])
        return (t[0], swap(t[1], k - 1))
    k = r.randrange(depth(a['type']))
    new = swap(a['type'], k)
    # (nn, (nn, x)) is not a type
    def ok(t):
        return t[0] == 'n' or (not (t[0] == 'nn' and t[1][0] == 'nn') and ok(t[1]))
    if not ok(new):
        return False
    a['type'] = new
    a['default'] = None
    if new[0] == 'nn':
        a['deprecation'] = None
    return True


def m_iface_extra_required_arg(r, M):
    p = _impl_pairs(M)
    if not p:
        return False
    n, i, fn = r.choice(p)
    M['types'][n]['fields'][fn]['args']['extraRequired'] = {'type': ('nn', ('n', 'Int')), 'default': None, 'desc': None, 'deprecation': None}
    return True


def m_iface_extra_optional_arg_ok(r, M):
    p = _impl_pairs(M)
    if not p:
        return False
    n, i, fn = r.choice(p)
    if any(n in t.get('interfaces', []) for t in M['types'].values()):
        return False
    M['types'][n]['fields'][fn]['args']['extraOptional'] = {'type': r.choice([('n', 'Int'), ('nn', ('n', 'Int'))]), 'default': '1', 'desc': None, 'deprecation': None}
    if r.random() < 0.5:
        M['types'][n]['fields'][fn]['args']['extraOptional'] = {'type': ('n', 'Int'), 'default': None, 'desc': None, 'deprecation': None}
    return True


def m_iface_self(r, M):
    c = _kinds(M, 'interface')
    if not c:
        return False
    n = r.choice(c)
    M['types'][n]['interfaces'].append(n)
    return True


def m_iface_missing_transitive(r, M):
    c = [(n, i) for n, t in M['types'].items() if t['kind'] in ('object', 'interface') for i in t['interfaces']
         if any(i in M['types'][j]['interfaces'] for j in t['interfaces'] if j in M['types'] and j != i)]
    if not c:
        return False
    n, i = r.choice(c)
    M['types'][n]['interfaces'].remove(i)
    return True


def m_implements_non_interface(r, M):
    objs = _kinds(M, 'object')
    if len(objs) < 2:
        return False
    a, b = r.sample(objs, 2)
    M['types'][a]['interfaces'].append(b)
    return True


def m_union_empty(r, M):
    c = _kinds(M, 'union')
    if not c:
        return False
    M['types'][r.choice(c)]['members'] = []
    return True


def m_union_non_object(r, M):
    c = _kinds(M, 'union')
    o = _kinds(M, 'enum') + _kinds(M, 'interface') + _kinds(M, 'input') + _kinds(M, 'scalar') + ['Int']
    if not c:
        return False
    M['types'][r.choice(c)]['members'].append(r.choice(o))
    return True


def m_empty_type(r, M):
    c = [n for n, t in M['types'].items() if t['kind'] in ('object', 'interface', 'input', 'enum')
         and not any(n in x.get('interfaces', []) for x in M['types'].values())]
    if not c:
        return False
    t = M['types'][r.choice(c)]
    if t['kind'] == 'enum':
        t['values'] = {}
    else:
        t['fields'] = {}
    return True


def m_output_in_input(r, M):
    ivs = _input_values(M)
    o = _kinds(M, 'object') + _kinds(M, 'interface') + _kinds(M, 'union')
    if not ivs or not o:
        return False
    a = r.choice(ivs)
    a['type'] = r.choice([('n', r.choice(o)), ('l', ('nn', ('n', r.choice(o)))), ('nn', ('n', r.choice(o)))])
    if r.random() < 0.5:
        a['default'] = r.choice(['1', '{}', 'null', '[]', '"s"'])
    else:
        a['default'] = None
    if a['type'][0] == 'nn' and a['default'] is None:
        a['deprecation'] = None
    return True


def m_input_in_output(r, M):
    oi = _oi(M)
    i = _kinds(M, 'input')
    if not oi or not i:
        return False
    n = r.choice([x for x in oi if not any(x in t.get('interfaces', []) for t in M['types'].values())] or oi)
    t = M['types'][n]
    fn = r.choice(list(t['fields']))
    if any(fn in M['types'][j]['fields'] for j in t['interfaces'] if j in M['types']):
        t['fields']['fresh'] = {'type': ('n', r.choice(i)), 'args': {}, 'desc': None, 'deprecation': None}
    else:
        t['fields'][fn]['type'] = r.choice([('n', r.choice(i)), ('l', ('n', r.choice(i)))])
    return True


def m_reserved_name(r, M):
    k = r.random()
    T = M['types']
    if k < 0.3:
        c = [n for n in _oi(M) if not any(n in t.get('interfaces', []) for t in T.values())]
        if not c:
            return False
        T[r.choice(c)]['fields']['__secret'] = {'type': ('n', 'Int'), 'args': {}, 'desc': None, 'deprecation': None}
    elif k < 0.5:
        c = _kinds(M, 'enum')
        if not c:
            return False
        T[r.choice(c)]['values']['__X'] = {'desc': None, 'deprecation': None}
    elif k < 0.7:
        c = _kinds(M, 'input')
        if not c or T[c[0]].get('one_of'):
            return False
        T[c[0]]['fields']['__f'] = {'type': ('n', 'Int'), 'default': None, 'desc': None, 'deprecation': None}
    elif k < 0.85:
        T['__Mine'] = {'kind': 'scalar', 'desc': None, 'specified_by': None}
    else:
        c = [f for n in _oi(M) for f in T[n]['fields'].values() if not any(n in t.get('interfaces', []) for t in T.values())]
        if not c:
            return False
        r.choice(c)['args']['__a'] = {'type': ('n', 'Int'), 'default': None, 'desc': None, 'deprecation': None}
    return True


def m_bad_default(r, M):
    ivs = [a for a in _input_values(M) if R8.is_input_kind(R8.kind(M, R8.named_of(a['type'])))]
    if not ivs:
        return False
    a = r.choice(ivs)
    nm = R8.named_of(a['type'])
    k = R8.kind(M, nm)
    if nm in ('Int', 'Float'):
        a['default'] = r.choice(['"s"', 'true', '{}', 'X'] + (['1.5', '2147483648'] if nm == 'Int' else ['1e400']))
    elif nm in ('String',):
        a['default'] = r.choice(['1', 'true', 'X', '{}'])
    elif nm == 'Boolean':
        a['default'] = r.choice(['1', '"true"', 'X'])
    elif nm == 'ID':
        a['default'] = r.choice(['1.5', 'true', 'X'])
    elif k == 'enum':
        a['default'] = r.choice(['NOPE', '"ADMIN"', '1'])
    elif k == 'input':
        a['default'] = r.choice(['{unknownField: 1}', '1', '"s"'])
    else:
        if a['type'][0] != 'nn':
            return False
        a['default'] = 'null'
    if a['type'][0] == 'l' or (a['type'][0] == 'nn' and a['type'][1][0] == 'l'):
        if r.random() < 0.5:
            a['default'] = '[' + a['default'] + ']'
    return True


def m_null_default_for_non_null(r, M):
    ivs = [a for a in _input_values(M) if a['type'][0] == 'nn' and R8.is_input_kind(R8.kind(M, R8.named_of(a['type'])))]
    if not ivs:
        return False
    r.choice(ivs)['default'] = 'null'
    return True


def m_input_cycle(r, M):
    c = [n for n in _kinds(M, 'input') if not M['types'][n].get('one_of')]
    if not c:
        return False
    if len(c) >= 2 and r.random() < 0.5:
        a, b = r.sample(c, 2)
        M['types'][a]['fields']['toB'] = {'type': ('nn', ('n', b)), 'default': None, 'desc': None, 'deprecation': None}
        M['types'][b]['fields']['toA'] = {'type': ('nn', ('n', a)), 'default': None, 'desc': None, 'deprecation': None}
    else:
        a = r.choice(c)
        M['types'][a]['fields']['self'] = {'type': ('nn', ('n', a)), 'default': None, 'desc': None, 'deprecation': None}
    return True


def m_input_cycle_list_ok(r, M):
    c = [n for n in _kinds(M, 'input') if not M['types'][n].get('one_of')]
    if not c:
        return False
    a = r.choice(c)
    M['types'][a]['fields']['selves'] = {'type': ('nn', ('l', ('nn', ('n', a)))), 'default': None, 'desc': None, 'deprecation': None}
    return True


def m_default_cycle(r, M):
    c = [n for n in _kinds(M, 'input') if not M['types'][n].get('one_of')
         and all(f['type'][0] != 'nn' or f['default'] is not None for f in M['types'][n]['fields'].values())]
    if not c:
        return False
    a = r.choice(c)
    M['types'][a]['fields']['again'] = {'type': ('n', a), 'default': '{}', 'desc': None, 'deprecation': None}
    return True


def m_default_no_cycle_ok(r, M):
    c = [n for n in _kinds(M, 'input') if not M['types'][n].get('one_of')
         and all(f['type'][0] != 'nn' or f['default'] is not None for f in M['types'][n]['fields'].values())]
    if not c:
        return False
    a = r.choice(c)
    M['types'][a]['fields']['again'] = {'type': ('n', a), 'default': '{again: null}', 'desc': None, 'deprecation': None}
    return True


def m_oneof_nonnull(r, M):
    c = [n for n in _kinds(M, 'input') if M['types'][n].get('one_of')]
    if not c:
        return False
    t = M['types'][r.choice(c)]
    f = t['fields'][r.choice(list(t['fields']))]
    f['type'] = ('nn', nullable(f['type']))
    f['deprecation'] = None
    return True


def m_oneof_default(r, M):
    c = [n for n in _kinds(M, 'input') if M['types'][n].get('one_of')]
    if not c:
        return False
    t = M['types'][r.choice(c)]
    t['fields']['withDefault'] = {'type': ('n', 'Int'), 'default': '1', 'desc': None, 'deprecation': None}
    return True


def _input_values(M):
    out = []
    for n, t in M['types'].items():
        if t['kind'] in ('object', 'interface'):
            for fn, f in t['fields'].items():
                out.extend(f['args'].values())
        elif t['kind'] == 'input':
            out.extend(t['fields'].values())
    for d in M['directives'].values():
        out.extend(d['args'].values())
    return out


def m_deprecated_required(r, M):
    vals = _input_values(M)
    if not vals:
        return False
    a = r.choice(vals)
    a['deprecation'] = r.choice(['', 'gone', 'No longer supported'])
    if r.random() < 0.7:
        if a['type'][0] != 'nn':
            a['type'] = ('nn', a['type'])
        a['default'] = None
    return True


def m_impl_deprecated(r, M):
    p = _impl_pairs(M)
    if not p:
        return False
    n, i, fn = r.choice(p)
    M['types'][n]['fields'][fn]['deprecation'] = 'old'
    if r.random() < 0.3:
        M['types'][i]['fields'][fn]['deprecation'] = 'old too'
    return True


def m_iface_dup(r, M):
    p = [n for n, t in M['types'].items() if t['kind'] in ('object', 'interface') and t['interfaces']]
    if not p:
        return False
    t = M['types'][r.choice(p)]
    t['interfaces'].append(r.choice(t['interfaces']))
    return True


def m_union_dup(r, M):
    p = [n for n, t in M['types'].items() if t['kind'] == 'union' and t['members']]
    if not p:
        return False
    t = M['types'][r.choice(p)]
    t['members'].append(r.choice(t['members']))
    return True


def m_own_specified_directive(r, M):
    """The schema defines a directive of its own under the name of a specified one (legal), and - mostly - that definition
    breaks one directive rule: it has to be validated like any other directive."""
    ds = list(M['directives'])
    new = r.choice(['skip', 'include'])
    if not ds or new in M['directives']:
        return False
    d = M['directives'].pop(r.choice(ds))
    M['directives'][new] = d
    d['deprecation'] = None
    d['locations'] = [x for x in d['locations'] if x in ('FIELD', 'FRAGMENT_SPREAD', 'INLINE_FRAGMENT', 'QUERY')] or ['FIELD']
    k = r.random()
    out = _oi(M) + _kinds(M, 'union')
    if k < 0.25 and out:
        d['args']['bad'] = {'type': r.choice([('n', r.choice(out)), ('nn', ('n', r.choice(out)))]), 'default': None, 'desc': None, 'deprecation': None}
    elif k < 0.5:
        d['args']['flag'] = {'type': ('nn', ('n', 'Boolean')), 'default': r.choice(['"yes"', '1', 'X']), 'desc': None, 'deprecation': None}
    elif k < 0.65:
        d['args']['__x'] = {'type': ('n', 'Int'), 'default': None, 'desc': None, 'deprecation': None}
    elif k < 0.85:
        d['args']['old'] = {'type': ('nn', ('n', 'Int')), 'default': None, 'desc': None, 'deprecation': 'gone'}
    return True


def m_cycle_with_bad_field_and_defaults(r, M):
    """Two input objects on a (nullable, hence legal) cycle, one of which also has a field of a non-input type placed after
    the field that enters the cycle; two arguments with defaults of these types, in either order: what the validator
    concludes about one type while it is still inside the cycle must not be what it remembers about it."""
    oi = _oi(M)
    if not oi:
        return False
    T = M['types']
    a, b = 'CycA', 'CycB'
    if a in T or b in T:
        return False
    bad_field = {'type': ('n', r.choice(oi)), 'default': None, 'desc': None, 'deprecation': None}
    to_b = {'type': r.choice([('n', b), ('l', ('n', b))]), 'default': None, 'desc': None, 'deprecation': None}
    fields_a = [('b', to_b), ('q', bad_field)]
    if r.random() < 0.3:
        fields_a.reverse()
    T[a] = {'kind': 'input', 'desc': None, 'fields': dict(fields_a), 'one_of': False}
    T[b] = {'kind': 'input', 'desc': None, 'fields': {'a': {'type': ('n', a), 'default': None, 'desc': None, 'deprecation': None}}, 'one_of': False}
    host = T[r.choice(oi)]
    f = host['fields'][r.choice(list(host['fields']))]
    new_args = [('cx', {'type': ('n', a), 'default': r.choice(['null', '{}', '{b: null}']), 'desc': None, 'deprecation': None}),
                ('cy', {'type': ('n', b), 'default': r.choice(['{a: {q: 1}}', '{a: {b: null, q: 1}}', '{a: null}', '{a: {}}']), 'desc': None, 'deprecation': None})]
    if r.random() < 0.4:
        new_args.reverse()
    for k, v in new_args:
        f['args'][k] = v
    return True


MUTATORS = [m_own_specified_directive, m_own_specified_directive, m_cycle_with_bad_field_and_defaults, m_cycle_with_bad_field_and_defaults, m_iface_arg_wrapper_kind, m_deprecated_required, m_impl_deprecated, m_iface_dup, m_union_dup, m_no_query, m_root_not_object, m_same_root, m_iface_missing_field, m_iface_field_type, m_iface_covariant_ok, m_iface_missing_arg,
            m_iface_arg_type, m_iface_extra_required_arg, m_iface_extra_optional_arg_ok, m_iface_self, m_iface_missing_transitive,
            m_implements_non_interface, m_union_empty, m_union_non_object, m_empty_type, m_output_in_input, m_input_in_output, m_reserved_name,
            m_bad_default, m_null_default_for_non_null, m_input_cycle, m_input_cycle_list_ok, m_default_cycle, m_default_no_cycle_ok, m_oneof_nonnull,
            m_oneof_default]


def judge(ctx, S, expected_bad, how, case):
    """validate_schema never raises; empty iff R8 says valid; a request returns exactly those errors."""
    try:
        errs = validate_schema(S)
    except Exception as e:  # noqa: BLE001
        ctx.violation(f"validate-schema-crash:{type(e).__name__}", {"how": how, "exception": repr(e)[:300], "mutators": case.get("mutators")}, case)
        return
    if not isinstance(errs, list) or not all(isinstance(e, GraphQLError) for e in errs):
        ctx.violation("validate-schema-result-malformed", {"how": how, "result": repr(errs)[:200]}, case)
        return
    if expected_bad is not None:
        ctx.count("verdicts_compared_with_R8")
        ctx.count("invalid_models_checked" if expected_bad else "valid_models_checked")
        for label in expected_bad:
            ctx.label("rule_classes_violated", label)
        if bool(errs) != bool(expected_bad):
            if errs:
                ctx.violation("spurious-schema-error", {"how": how, "errors": [e.message[:200] for e in errs][:3], "mutators": case.get("mutators")}, case)
            else:
                ctx.violation("violation-not-reported:" + expected_bad[0], {"how": how, "R8": expected_bad, "mutators": case.get("mutators")}, case)
            return
    if errs:
        calls = []

        def resolver(_src, info, **kw):
            calls.append(info.field_name)
            return None
        q = '{ __typename }'
        try:
            qt = S.query_type
            if qt is not None and getattr(qt, 'fields', None):
                fname, f = next(iter(qt.fields.items()))
                if not any(a.type.__class__.__name__ == 'GraphQLNonNull' and a.default is None for a in f.args.values()):
                    q = '{ %s%s }' % (fname, '' if not hasattr(f.type, 'of_type') and f.type.__class__.__name__ in ('GraphQLScalarType', 'GraphQLEnumType') else '')
                    if f.type.__class__.__name__ not in ('GraphQLScalarType', 'GraphQLEnumType'):
                        q = '{ __typename }'
        except Exception:  # noqa: BLE001
            q = '{ __typename }'
        ctx.count("requests_against_invalid_schemas")
        try:
            res = graphql_sync(S, q, field_resolver=resolver)
        except Exception as e:  # noqa: BLE001
            ctx.violation(f"request-on-invalid-schema-raises:{type(e).__name__}", {"how": how, "exception": repr(e)[:300], "query": q}, case)
            return
        if calls:
            ctx.violation("request-on-invalid-schema-executes", {"how": how, "resolvers_called": calls[:3], "query": q}, case)
            return
        if res.data is not None or [e.message for e in res.errors or []] != [e.message for e in errs]:
            ctx.violation("request-on-invalid-schema-returns-other-errors", {"how": how, "response": [e.message[:120] for e in res.errors or []][:3],
                                                                             "validation": [e.message[:120] for e in errs][:3]}, case)


def model_case(ctx, seed, k):
    rng = random.Random(seed)
    base = SchemaGen(rng, adversarial=0.0).model()
    M = copy.deepcopy(base)
    names = []
    nm = rng.choice([0, 1, 1, 1, 2])
    for _ in range(nm):
        f = rng.choice(MUTATORS)
        try:
            if f(rng, M):
                names.append(f.__name__)
        except (KeyError, IndexError, ValueError):
            pass
    try:
        expected = R8.check(M)
    except Exception:  # noqa: BLE001
        ctx.count("model_not_judged")
        return
    sdl = render_sdl(M)
    case = {"kind": "model", "seed": seed, "mutators": names, "sdl": sdl, "R8": expected}
    hows = ['sdl', 'sdl:assume_valid_sdl', 'programmatic']
    if 'default:invalid' not in expected:
        # defaults given as external Python values (GraphQLDefaultInput(value=...)) take a different path through the
        # validator (validate_input_value on values, value-based default cycle detection).  An ill-kinded literal such as
        # X for String has no external-value counterpart, so models with an invalid default stay on the literal paths.
        hows.append('programmatic:value')
    for how in hows:
        ctx.case()
        try:
            if how == 'programmatic:value':
                S = build_programmatic(M, 'value')
                ctx.count("schemas_with_value_style_defaults")
            elif how == 'programmatic':
                S = build_programmatic(M, 'literal')
            else:
                S = build_schema(sdl, assume_valid_sdl=how.endswith('assume_valid_sdl'))
        except Exception as e:  # noqa: BLE001
            ctx.count("not_constructible:" + how.split(':')[0])
            ctx.label("construction_exceptions", type(e).__name__)
            continue
        judge(ctx, S, expected, how, {**case, "how": how})
        if names:
            ctx.nontrivial((sdl, how))
    if k % 499 == 0:
        ctx.sample({"mutators": names, "R8": expected, "sdl": sdl[:500]})


def ill_typed_value(rng, M, ref):
    """An external Python value that certainly does not conform to the input type `ref`, or None if there is none."""
    if ref[0] == 'nn':
        return ('v', None) if rng.random() < 0.5 else ill_typed_value(rng, M, ref[1])
    if ref[0] == 'l':
        inner = ill_typed_value(rng, M, ref[1])
        if inner is None:
            return None
        # a non-list value is coerced to a one-item list, except null, which is a valid value for the nullable list itself
        return ('v', [inner[1]]) if (inner[1] is None or isinstance(inner[1], list) or rng.random() < 0.5) else inner
    name = ref[1]
    if name == 'Int':
        return ('v', rng.choice(['1', 1.5, True, 2 ** 31, {}]))
    if name == 'Float':
        return ('v', rng.choice(['1.0', True, {}, float('inf')]))
    if name == 'String':
        return ('v', rng.choice([1, True, {}, 1.5]))
    if name == 'Boolean':
        return ('v', rng.choice(['true', 0, 1, {}]))
    if name == 'ID':
        return ('v', rng.choice([True, 1.5, {}]))
    t = M['types'].get(name)
    if t is None:
        return None
    if t['kind'] == 'enum':
        return ('v', rng.choice(['__NOT_A_VALUE', 1, True]))
    if t['kind'] == 'input':
        return ('v', rng.choice([1, 'x', {'__no_such_field': 1}]))
    return None   # custom scalars accept anything


def value_default_case(ctx, seed):
    """A valid schema whose only defect is an ill-typed default given as an external value."""
    rng = random.Random(seed)
    M = SchemaGen(rng, adversarial=0.0).model()
    try:
        if R8.check(M):
            return
    except Exception:  # noqa: BLE001
        return
    vals = [a for a in _input_values(M) if not (a['type'][0] == 'nn' and a.get('deprecation') is not None)]
    rng.shuffle(vals)
    for a in vals:
        v = ill_typed_value(rng, M, a['type'])
        if v is not None:
            a['pyvalue'] = v[1]
            break
    else:
        return
    how = 'programmatic:ill-typed-value-default'
    case = {"kind": "value-default", "seed": seed}
    try:
        S = build_programmatic(M, 'value')
    except Exception as e:  # noqa: BLE001
        ctx.count("not_constructible:programmatic")
        ctx.label("construction_exceptions", type(e).__name__)
        return
    ctx.case()
    ctx.count("ill_typed_value_defaults_checked")
    judge(ctx, S, ['default:invalid'], how, {**case, "how": how, "mutators": [repr(a['pyvalue'])[:40], repr(a['type'])]})
    ctx.nontrivial((seed, how))


def kwargs_history_case(ctx, seed):
    """A valid schema that has been validated, then copied through to_kwargs() with one rule-violating edit: what
    validation found out about the first object must not be carried over to the second."""
    import graphql as G
    rng = random.Random(seed)
    M = SchemaGen(rng, adversarial=0.0).model()
    try:
        if R8.check(M):
            return
        S = build_programmatic(M, 'literal') if rng.random() < 0.5 else build_schema(render_sdl(M))
        if validate_schema(S):
            return
        if rng.random() < 0.5:
            graphql_sync(S, '{ __typename }')
    except Exception:  # noqa: BLE001
        return
    kw = S.to_kwargs()
    edit = rng.choice(['no-query', 'same-root', 'empty-object', 'empty-union', 'reserved-name'])
    if edit == 'no-query':
        kw['query'] = None
        expect = 'root:query-missing'
    elif edit == 'same-root':
        kw['mutation'] = kw['query']
        expect = 'root:same-type-for-two-operations'
    elif edit == 'empty-object':
        kw['types'] = list(kw['types'] or []) + [G.GraphQLObjectType('EmptyObject', {})]
        expect = 'empty:fields'
    elif edit == 'empty-union':
        kw['types'] = list(kw['types'] or []) + [G.GraphQLUnionType('EmptyUnion', [])]
        expect = 'empty:union-members'
    else:
        kw['types'] = list(kw['types'] or []) + [G.GraphQLObjectType('__Reserved', {'f': G.GraphQLField(G.GraphQLInt)})]
        expect = 'name:reserved'
    how = 'to_kwargs-of-a-validated-schema:' + edit
    case = {"kind": "kwargs-history", "seed": seed}
    try:
        S2 = G.GraphQLSchema(**kw)
    except Exception as e:  # noqa: BLE001
        ctx.count("not_constructible:programmatic")
        ctx.label("construction_exceptions", type(e).__name__)
        return
    ctx.case()
    ctx.count("kwargs_histories_checked")
    judge(ctx, S2, [expect], how, {**case, "how": how, "mutators": [edit]})
    ctx.nontrivial((seed, how))


def random_sdl_case(ctx, rng, k):
    s = src.gen_source(rng, 'sdl', names=['Query', 'A', 'B', 'I', 'U', 'E', 'In', 'Int', 'String', 'f', 'g', 'x', 'ID', 'Mutation', 'S'], max_depth=2,
                       hostile=0.05, keywords=0.02)
    if rng.random() < 0.5:
        s = mut.mutate(rng, s, lone=False)
    for assume in (False, True):
        try:
            S = build_schema(s, assume_valid_sdl=assume)
        except Exception:  # noqa: BLE001
            ctx.count("random_sdl_not_constructible")
            continue
        ctx.case()
        ctx.count("random_sdl_schemas_validated")
        judge(ctx, S, None, f"random-sdl:assume_valid_sdl={assume}", {"kind": "sdl", "sdl": s, "assume_valid_sdl": assume})


def run_shard(ctx):
    base = ctx.seed * 9_000_011 + ctx.shard * 1_000_081
    for k in range(ctx.n(5000, 90000)):
        model_case(ctx, base + k, k)
    for k in range(ctx.n(2500, 40000)):
        value_default_case(ctx, base + 7_000_000 + k)
    for k in range(ctx.n(1500, 25000)):
        kwargs_history_case(ctx, base + 9_000_000 + k)
    rng = ctx.rng
    for k in range(ctx.n(12000, 200000)):
        random_sdl_case(ctx, rng, k)


def replay(ctx, case):
    if case["kind"] == "model":
        model_case(ctx, case["seed"], 1)
    elif case["kind"] == "value-default":
        value_default_case(ctx, case["seed"])
    elif case["kind"] == "kwargs-history":
        kwargs_history_case(ctx, case["seed"])
    else:
        try:
            S = build_schema(case["sdl"], assume_valid_sdl=case["assume_valid_sdl"])
        except Exception:  # noqa: BLE001
            return
        judge(ctx, S, None, "replay", case)
