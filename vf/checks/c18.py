"""C18 - introspection describes the schema truthfully and can rebuild it."""
from __future__ import annotations

import copy
import itertools
import json
import random

from graphql import (build_client_schema, build_schema, execute_sync, get_introspection_query, parse, print_schema, validate,
                     validate_schema)
from graphql.utilities import find_schema_changes, introspection_from_schema

from ..gen.schema import SchemaGen, build_programmatic, render_sdl
from ..ref import schema_canon as C

LEVEL = "exploration"
LEVEL_TEXT = ("For generated valid schemas (SDL-built and programmatic; deprecated arguments / input fields / directives, OneOf, specifiedBy, defaults of every kind, "
              "adversarial descriptions) the real introspection query is produced, validated and executed under sampled (quick) or all 128 (thorough) option sets; "
              "each result must equal the projection of the all-options result, the all-options result must equal a canonical description computed from the "
              "generating model, single-type lookups must equal their entry in the type list, and the client schema built from it must print identically, show "
              "no changes, have the same canonical description and introspect to the same result.")
LEVEL_NOTE = "trusted: the projection rules and the canonical extraction in the harness (vf/ref/schema_canon.py); wrapper nesting in generated schemas stays below the query's ofType depth of 9"
TECHNIQUE = "runtime monitoring: projection law across option sets + structural comparator against the generating model + client-schema round trip"
RULE = ("schemas from G-schema x option sets (quick: all-on, all-off, each option alone on, each alone off, 2 random = 18 sets; thorough: all 128) x single-type lookups for every type "
        "x a family of ad-hoc introspection selections. Non-trivial: the schema has a deprecated input value or directive, a OneOf input, a specifiedBy URL or a default; distinct = (schema SDL, option set).")
ASSUMPTIONS = ["deprecated directives are an experimental feature: the printed client schema is compared with the printed original, both by print_schema"]
REQUIRED_COUNTERS = ["introspection_from_schema_compared", "absent_type_lookups_checked", "introspection_runs", "projection_laws_checked", "model_comparisons", "type_lookups_compared", "client_schemas_round_tripped", "adhoc_selections_checked"]

OPTS = ['descriptions', 'specified_by_url', 'directive_is_repeatable', 'schema_description', 'input_value_deprecation',
        'experimental_directive_deprecation', 'one_of']
ALL_ON = {o: True for o in OPTS}


def project(full, o):
    """What the result must be when some options are off, given the all-options result."""
    r = copy.deepcopy(full)
    s = r['__schema']

    def strip_iv(ivs):
        out = []
        for iv in ivs:
            if not o['input_value_deprecation']:
                if iv.get('isDeprecated'):
                    continue
                iv.pop('isDeprecated', None)
                iv.pop('deprecationReason', None)
            if not o['descriptions']:
                iv.pop('description', None)
            out.append(iv)
        return out
    if not (o['descriptions'] and o['schema_description']):
        s.pop('description', None)
    for t in s['types']:
        if not o['descriptions']:
            t.pop('description', None)
        if not o['specified_by_url']:
            t.pop('specifiedByURL', None)
        if not o['one_of']:
            t.pop('isOneOf', None)
        for f in t.get('fields') or []:
            if not o['descriptions']:
                f.pop('description', None)
            f['args'] = strip_iv(f['args'])
        if t.get('inputFields') is not None:
            t['inputFields'] = strip_iv(t['inputFields'])
        for v in t.get('enumValues') or []:
            if not o['descriptions']:
                v.pop('description', None)
    dirs = []
    for d in s['directives']:
        if not o['experimental_directive_deprecation']:
            if d.get('isDeprecated'):
                continue
            d.pop('isDeprecated', None)
            d.pop('deprecationReason', None)
        if not o['descriptions']:
            d.pop('description', None)
        if not o['directive_is_repeatable']:
            d.pop('isRepeatable', None)
        d['args'] = strip_iv(d['args'])
        dirs.append(d)
    s['directives'] = dirs
    return r


def run_introspection(ctx, schema, o, case):
    try:
        q = get_introspection_query(**o)
        doc = parse(q)
        verrs = validate(schema, doc)
    except Exception as e:  # noqa: BLE001
        ctx.violation(f"introspection-query-crash:{type(e).__name__}", {"options": o, "exception": repr(e)[:200]}, case)
        return None
    if verrs:
        ctx.violation("introspection-query-invalid", {"options": o, "errors": [e.message[:160] for e in verrs][:3]}, case)
        return None
    ctx.count("introspection_runs")
    try:
        res = execute_sync(schema, doc)
    except Exception as e:  # noqa: BLE001
        ctx.violation(f"introspection-execution-crash:{type(e).__name__}", {"options": o, "exception": repr(e)[:200]}, case)
        return None
    if res.errors:
        ctx.violation("introspection-execution-errors", {"options": o, "errors": [e.message[:200] for e in res.errors][:3]}, case)
        return None
    return res.data


def first_json_diff(a, b, path='$'):
    if type(a) is not type(b):
        return f'{path}: {json.dumps(a)[:80]} vs {json.dumps(b)[:80]}'
    if isinstance(a, dict):
        for k in a:
            if k not in b:
                return f'{path}.{k}: only in first'
            d = first_json_diff(a[k], b[k], f'{path}.{k}')
            if d:
                return d
        for k in b:
            if k not in a:
                return f'{path}.{k}: only in second'
        if list(a) != list(b):
            return f'{path}: key order {list(a)} vs {list(b)}'
        return None
    if isinstance(a, list):
        if len(a) != len(b):
            names = lambda x: [i.get('name') if isinstance(i, dict) else i for i in x]
            return f'{path}: length {len(a)} vs {len(b)}: {names(a)[:8]} vs {names(b)[:8]}'
        for i, (x, y) in enumerate(zip(a, b)):
            d = first_json_diff(x, y, f'{path}[{i}]')
            if d:
                return d
        return None
    return None if a == b else f'{path}: {a!r} vs {b!r}'


def option_sets(rng, tier):
    if tier == 'thorough':
        return [dict(zip(OPTS, bits)) for bits in itertools.product([True, False], repeat=len(OPTS))]
    sets = [dict(ALL_ON), {o: False for o in OPTS}]
    for o in OPTS:
        sets.append({**{x: False for x in OPTS}, o: True})
        sets.append({**ALL_ON, o: False})
    for _ in range(2):
        sets.append({o: rng.random() < 0.5 for o in OPTS})
    return sets


TYPE_LOOKUP = '''query ($n: String!) { __type(name: $n) { ...FullType } }'''


def check_schema(ctx, rng, S, m, how, case):
    full = run_introspection(ctx, S, ALL_ON, case)
    if full is None:
        return
    if m is None:
        return check_schema_laws(ctx, rng, S, full, how, case)
    canon_model = C.from_model(m)
    # truthful: the all-options result equals the canonical description of the generating model
    ctx.count("model_comparisons")
    try:
        ci = C.from_introspection(full)
    except Exception as e:  # noqa: BLE001
        ctx.violation(f"introspection-result-malformed:{type(e).__name__}", {"exception": repr(e)[:200]}, case)
        return
    d = C.diff(canon_model, ci, ordered_types=False)
    if d:
        ctx.violation("introspection-differs-from-model", {"how": how, "diffs": d[:4]}, case)
        return
    return check_schema_laws(ctx, rng, S, full, how, case)


def check_schema_laws(ctx, rng, S, full, how, case):
    """The clauses that need no generating model: options, lookups, client schema round trip."""
    # projection law across option sets
    for o in option_sets(rng, ctx.tier):
        if o == ALL_ON:
            continue
        got = run_introspection(ctx, S, o, case)
        if got is None:
            return
        ctx.count("projection_laws_checked")
        ctx.case()
        exp = project(full, o)
        # the packaged entry point (introspection_from_schema) must hand every option to the query builder unchanged
        packaged = None
        if rng.random() < 0.3:
            try:
                packaged = introspection_from_schema(S, **o)
            except Exception as e:  # noqa: BLE001
                ctx.violation(f"introspection-from-schema-crash:{type(e).__name__}", {"options": o, "exception": repr(e)[:200]}, {**case, "options": o})
                return
            ctx.count("introspection_from_schema_compared")
        if packaged is not None and json.dumps(packaged) != json.dumps(got):
            ctx.violation("introspection-from-schema-differs-from-query", {"how": how, "options_off": [k for k, v in o.items() if not v],
                                                                          "diff": first_json_diff(packaged, got)}, {**case, "options": o})
            return
        if got != exp or json.dumps(got) != json.dumps(exp):
            off = [k for k, v in o.items() if not v]
            ctx.violation("projection-law:" + ("input-value-deprecation" if 'isDeprecated' in (first_json_diff(got, exp) or '') or 'length' in (first_json_diff(got, exp) or '') else "attributes"),
                          {"how": how, "options_off": off, "diff": first_json_diff(got, exp)}, {**case, "options": o})
            return
        ctx.nontrivial((case["sdl"], how, json.dumps(o, sort_keys=True)))
    # single-type lookups agree with the full list
    q = get_introspection_query(**ALL_ON)
    frag = q[q.index('fragment FullType'):]
    ldoc = parse(TYPE_LOOKUP + '\n' + frag)
    for t in full['__schema']['types']:
        if rng.random() < 0.5 and len(full['__schema']['types']) > 12:
            continue
        res = execute_sync(S, ldoc, variable_values={'n': t['name']})
        ctx.count("type_lookups_compared")
        if res.errors or res.data['__type'] != t:
            ctx.violation("type-lookup-differs-from-list", {"how": how, "type": t['name'], "errors": [e.message for e in res.errors or []][:2],
                                                            "diff": None if res.errors else first_json_diff(res.data['__type'], t)}, case)
            return
    # ... in both directions: a name the list does not have is not found
    listed = {t['name'] for t in full['__schema']['types']}
    for nm in ('Int', 'Float', 'String', 'Boolean', 'ID', 'Query', 'Mutation', 'Subscription', '__NoSuchType', 'Ob99', '__Schema2', ''):
        if nm in listed:
            continue
        res = execute_sync(S, ldoc, variable_values={'n': nm})
        ctx.count("absent_type_lookups_checked")
        if res.errors or res.data['__type'] is not None:
            ctx.violation("type-lookup-finds-a-type-the-list-does-not-have", {"how": how, "type": nm, "errors": [e.message for e in res.errors or []][:2],
                                                                              "found": None if res.errors else (res.data['__type'] or {}).get('kind')}, case)
            return
    # client schema round trip
    ctx.count("client_schemas_round_tripped")
    try:
        client = build_client_schema(full)
        errs = validate_schema(client)
    except Exception as e:  # noqa: BLE001
        ctx.violation(f"build-client-schema-crash:{type(e).__name__}", {"how": how, "exception": repr(e)[:300]}, case)
        return
    if errs:
        ctx.violation("client-schema-invalid", {"how": how, "errors": [e.message[:160] for e in errs][:3]}, case)
        return
    p1, p2 = print_schema(S), print_schema(client)
    if p1 != p2:
        i = next((i for i, (a, b) in enumerate(zip(p1, p2)) if a != b), min(len(p1), len(p2)))
        ctx.violation("client-schema-prints-differently", {"how": how, "original": p1[max(0, i - 80):i + 80], "client": p2[max(0, i - 80):i + 80]}, case)
        return
    dd = C.diff(C.from_schema(S), C.from_schema(client), ordered_types=True)
    dd = [x for x in dd if 'legacy' not in x]
    if dd:
        ctx.violation("client-schema-differs", {"how": how, "diffs": dd[:4]}, case)
        return
    for a, b in ((S, client), (client, S)):
        ch = find_schema_changes(a, b)
        if ch:
            ctx.violation("changes-reported-for-client-schema", {"how": how, "changes": [str(c.description)[:160] for c in ch][:4]}, case)
            return
    again = run_introspection(ctx, client, ALL_ON, case)
    if again is not None and again != full:
        ctx.violation("client-schema-introspects-differently", {"how": how, "diff": first_json_diff(again, full)}, case)
        return
    # ad-hoc introspection selections
    for _ in range(3):
        fields = rng.sample(['kind', 'name', 'description', 'specifiedByURL', 'isOneOf'], rng.randint(1, 4))
        sub = rng.choice(['fields(includeDeprecated: true) { name isDeprecated }', 'inputFields { name defaultValue }', 'enumValues { name }',
                          'possibleTypes { name }', 'interfaces { name }', 'fields { name args { name } type { kind name ofType { name } } }', ''])
        adoc = '{ __schema { types { %s %s } } }' % (' '.join(fields), sub)
        try:
            res = execute_sync(S, parse(adoc))
        except Exception as e:  # noqa: BLE001
            ctx.violation(f"adhoc-introspection-crash:{type(e).__name__}", {"query": adoc, "exception": repr(e)[:200]}, case)
            return
        ctx.count("adhoc_selections_checked")
        if res.errors:
            ctx.violation("adhoc-introspection-errors", {"query": adoc, "errors": [e.message[:160] for e in res.errors][:2]}, case)
            return
        for got, ref in zip(res.data['__schema']['types'], full['__schema']['types']):
            for f in fields:
                if got[f] != ref[f]:
                    ctx.violation("adhoc-introspection-differs", {"query": adoc, "type": ref['name'], "field": f, "got": got[f], "full": ref[f]}, case)
                    return


def run_case(ctx, seed, k=0):
    rng = random.Random(seed)
    depdir = rng.random() < 0.4
    m = SchemaGen(rng, adversarial=rng.choice([0.0, 0.3]), deprecated_directives=depdir).model()
    sdl = render_sdl(m)
    case = {"seed": seed, "sdl": sdl}
    how = rng.choice(['sdl', 'programmatic:literal', 'programmatic:value', 'programmatic:literal:subclassed', 'programmatic:value:subclassed'])
    try:
        S = build_schema(sdl, experimental_directives_on_directive_definitions=depdir) if how == 'sdl' else \
            build_programmatic(m, how.split(':')[1], subclassed=how.endswith(':subclassed'))
        if how.endswith(':subclassed'):
            ctx.count("schemas_made_of_subclassed_type_classes")
    except Exception as e:  # noqa: BLE001
        ctx.violation("construction-fails", {"how": how, "exception": repr(e)[:300]}, case)
        return
    ctx.case()
    check_schema(ctx, rng, S, m, how, {**case, "how": how})
    if how != 'sdl' and rng.random() < 0.5:
        # the same schema assembled the way hand-written code often does it: from the root types only (types nobody refers
        # to are then not part of the schema), with an unused built-in scalar listed explicitly, or with the specified
        # directives left out of an explicit directive list.  The generating model no longer describes these, so only the
        # laws that need no model are judged (options, lookups, client schema round trip).
        import graphql as G
        variant = rng.choice(['roots-only', 'explicit-unused-builtin', 'partial-directives', 'own-specified-directive', 'own-specified-directive'])
        kw = S.to_kwargs()
        if variant == 'roots-only':
            kw['types'] = None
        elif variant == 'explicit-unused-builtin':
            kw['types'] = [rng.choice([G.GraphQLFloat, G.GraphQLID, G.GraphQLInt])] + list(kw['types'] or [])
        elif variant == 'own-specified-directive':
            # a directive of the schema's own under the name of a specified one (legacy @deprecated, a richer @skip, ...)
            nm = rng.choice(['deprecated', 'skip', 'include', 'specifiedBy', 'oneOf'])
            own = G.GraphQLDirective(
                nm, rng.sample([G.DirectiveLocation.FIELD_DEFINITION, G.DirectiveLocation.ENUM_VALUE, G.DirectiveLocation.FIELD,
                                G.DirectiveLocation.QUERY, G.DirectiveLocation.SCALAR], rng.randint(1, 3)),
                args={rng.choice(['reason', 'if', 'extra']): G.GraphQLArgument(rng.choice([G.GraphQLString, G.GraphQLInt, G.GraphQLNonNull(G.GraphQLBoolean)]),
                                                                                  description=rng.choice([None, 'own argument']))},
                is_repeatable=rng.random() < 0.5, description=rng.choice([None, 'own definition']))
            kw['directives'] = [own if d.name == nm else d for d in kw['directives']]
        else:
            kw['directives'] = [d for d in kw['directives'] if d.name not in ('skip', 'specifiedBy', 'oneOf')]
        try:
            S2 = G.GraphQLSchema(**kw)
        except Exception as e:  # noqa: BLE001
            ctx.violation("construction-fails", {"how": how + ':' + variant, "exception": repr(e)[:300]}, case)
            return
        ctx.case()
        ctx.count("hand_assembled_variants_checked")
        check_schema(ctx, rng, S2, None, how + ':' + variant, {**case, "how": how, "variant": variant})
    if k % 97 == 0:
        ctx.sample({"seed": seed, "how": how, "sdl": sdl[:600]})


def run_shard(ctx):
    base = ctx.seed * 5_000_011 + ctx.shard * 1_000_037
    for k in range(ctx.n(240, 900)):
        run_case(ctx, base + k, k)


def replay(ctx, case):
    run_case(ctx, case["seed"])
