"""C04 - incremental delivery reassembles to the non-incremental response."""
from __future__ import annotations

import collections
import json
import random

from graphql import GraphQLError, parse, validate

from ..gen.data import make_value
from ..gen.doc import DocGen
from ..gen.schemas import rich_inc
from ..mon.incrun import run_incremental
from ..ref.executor import Ref
from ..ref.incremental import defer_owners, stream_order_problems, Assembler, defer_label_nesting, first_difference, refines, unordered_equal

LEVEL = "exploration"
LEVEL_TEXT = ("Generated validated queries with @defer/@stream (nested, labelled, if:false / variable, overlapping fragments, initialCount 0..3, streams over lists, "
              "lists of awaitables and async iterators) are executed by the real experimental_execute_incrementally on the controlled loop under seeded "
              "schedules (resolver completion order, consumer pull timing), with early execution on and off and error propagation on and off; an independent "
              "merge model (R4) applies the payloads to the initial result and the outcome is compared with an independent specification executor (R3) that "
              "ignores the directives: exact equality when error-free or propagation is disabled, the 'refines' relation otherwise (a key may stay undelivered only if every @defer fragment that selects it - computed by "
              "walking the document along the reference data - was completed with errors or is nested in one that was).")
LEVEL_NOTE = ("trusted: R3 (reference executor), R4 (merge model, vf/ref/incremental.py), the controlled loop; objects are compared unordered (deferred keys legitimately arrive later), lists ordered")
TECHNIQUE = "runtime monitoring with schedule control: differential oracle (merge model + specification executor) over incremental payload histories"
RULE = ("requests from G-doc over the rich schema with the three experimental directives added (1/11 of the seeds: over a generated valid schema with those directives added; 1/11 mutations; 1/13 resolved through is_type_of; 7/11: the nested-shared-defer, triple-nested-defer, split-defer, overlapping-defer, list-nested-defer, shared-fragment and stream template families, the last with list sources that are mostly async iterators); fault rate in {0, .1, .25} (null, raise, returned exception, wrong shape, list source raising after its items); @experimental_disableErrorPropagation on 30% of the operations; "
        "per request 6 (quick) / 10 (thorough) schedules x early execution in {off,on}. Non-trivial: the response was incremental (>= 1 subsequent payload); "
        "distinct = (document, variables, early, interleaving signature).")
ASSUMPTIONS = ["when the *source* of a streamed list fails after items were delivered, those items cannot be taken back: such runs are judged by the refines relation "
               "against a reference that keeps the items which arrived before the failure, even if propagation is disabled",
               "in the propagating case a key may be missing only under a fragment completed with errors, a list may be shorter only where a stream completed with errors, a null "
               "may replace a value only at or above an error path"]
REQUIRED_COUNTERS = ["runs", "incremental_responses", "assembled_compared_exact", "assembled_compared_refines", "payloads_merged"]


def split_defer_doc(rng):
    """A deferred fragment that shares an object field with the initial selection, so that it is executed as two
    units of work, one of which selects non-null fields (whose failure fails the whole fragment)."""
    leafs = ['name', 'age', 'active', 'role', 'blob', 'roles', 'tags']
    nn = rng.choice(['score', 'id', 'nnBest { id }', 'nnBest { score }', 'nnFriends { id }', 'tags'])
    inner = rng.choice(['best', 'nnBest', 'best'])
    parent = rng.choice(['me', 'nnMe', 'users', 'me { best', 'users @stream(initialCount: 1)'])
    close = ' }' if '{' in parent else ''
    a, b = rng.sample(leafs, 2)
    extra = rng.choice(['', '', f' ... @defer(label: "E") {{ {inner} {{ {rng.choice(leafs)} }} }}', f' k: {inner} {{ id }}'])
    lab2 = rng.choice(['', ' @stream(label: "S", initialCount: 0)']) if b in ('roles', 'tags') else ''
    return (f'query Q {{ {parent} {{ {inner} {{ {a} }} ... @defer(label: "D") {{ {nn} {inner} {{ {b}{lab2} }} }}{extra} }}{close} }}')


def overlap_defer_doc(rng):
    """Two deferred fragments at different depths that share fields: the shared fields form a unit of work owned by
    both fragments, and the payload that delivers it must name the id whose path is the longest (with the rest of the
    way as subPath) whichever of the two completes first."""
    leafs = ['name', 'age', 'active', 'role', 'blob', 'roles', 'tags', 'id', 'score']
    inner = rng.choice(['best', 'nnBest', 'best'])
    parent = rng.choice(['me', 'nnMe', 'users', 'me { best', 'users @stream(initialCount: 1)', 'me { nnBest'])
    close = ' }' if '{' in parent else ''
    shared = rng.sample(leafs, rng.randint(1, 2))
    only_a = rng.sample([x for x in leafs if x not in shared], rng.randint(0, 2))
    only_b = rng.sample([x for x in leafs if x not in shared], rng.randint(0, 2))
    deeper = rng.choice(['', '', f' {inner} {{ ... @defer(label: "C") {{ {shared[0]} {rng.choice(leafs)} }} }}'])
    a = f'... @defer(label: "A") {{ {rng.choice(["", "id ", "score "])}{inner} {{ {" ".join(shared + only_a)}{deeper} }} }}'
    b = f'{inner} {{ {rng.choice(["", "id ", "name "])}... @defer(label: "B") {{ {" ".join(shared + only_b)} }} }}'
    parts = [a, b]
    rng.shuffle(parts)
    return f'query Q {{ {parent} {{ {parts[0]} {parts[1]} }}{close} }}'


def list_nested_defer_doc(rng):
    """A deferred fragment on every item of a list, each discovering a further nested @defer when it runs, below an
    already existing defer context: what one item records about its fragments must not leak into its siblings,
    whichever item's fragment completes first."""
    leafs = ['name', 'age', 'active', 'role', 'blob', 'id', 'score']
    lst = rng.choice(['users', 'me { friends', 'nnMe { nnFriends', 'me { nnFriends'])
    close = ' }' if '{' in lst else ''
    obj = rng.choice(['best', 'nnBest', 'best'])
    a, b, c, sh = rng.sample(leafs, 4)
    inner = f'{obj} {{ {a} ... @defer(label: "I") {{ {b} }} }}'
    outer = f'... @defer(label: "O") {{ {c} {inner} }}'
    k = rng.random()
    if k < 0.25:
        outer = f'... @defer(label: "O") {{ {inner} }} {c}'
    elif k < 0.65:
        # a sibling fragment sharing a field with O keeps O pending (the shared field is a unit of work of its own) after
        # the unit that discovers the nested fragment has finished
        outer = f'... @defer(label: "O") {{ {inner} {sh} }} ... @defer(label: "C") {{ {sh} }}'
    top = rng.choice(['... @defer(label: "T") { t: __typename }', '... @defer(label: "T") { me { id } }'])
    body = f'{lst} {{ {rng.choice(leafs)} {outer} }}{close}'
    if rng.random() < 0.35:
        return f'query Q {{ ... @defer(label: "T") {{ {body} }} }}'
    parts = [top, body]
    rng.shuffle(parts)
    return f'query Q {{ {parts[0]} {parts[1]} }}'


def stream_doc(rng):
    """Streamed lists, plain and nested, of objects and of leaves; run with list sources that are mostly async iterators."""
    leafs = ['name', 'age', 'active', 'role', 'blob', 'id', 'score']

    def st():
        lab = rng.choice(['', '', f', label: "S{rng.randrange(3)}"'])
        return f'@stream(initialCount: {rng.choice([0, 0, 1, 2])}{lab})'
    a, b = rng.sample(leafs, 2)
    k = rng.choice([0, 1, 2, 2, 2, 3, 4, 5, 6, 6, 7, 7, 8])
    if k == 0:
        body = f'users {st()} {{ {a} {b} }}'
    elif k == 1:
        body = f'me {{ friends {st()} {{ {a} best {{ {b} }} }} }}'
    elif k == 2:
        body = f'users {st()} {{ {a} friends {st()} {{ {b} }} }}'
    elif k == 6:
        body = f'users {{ {a} ... @defer(label: "D") {{ friends {st()} {{ {b} }} }} }}'
    elif k == 7:
        # a stream created by a deferred fragment's executor whose items discover a @defer of their own
        body = f'... @defer(label: "D") {{ users {st()} {{ {a} ... @defer(label: "I") {{ {b} }} }} }}'
    elif k == 8:
        body = f'me {{ id ... @defer(label: "D") {{ friends {st()} {{ {a} ... @defer(label: "I") {{ {b} best {{ {a} }} }} }} }} }}'
    elif k == 3:
        body = f'nnMe {{ tags {st()} roles {st()} {a} }}'
    elif k == 4:
        body = f'users {st()} {{ {a} ... @defer(label: "D") {{ {b} }} }}'
    else:
        body = f'me {{ nnFriends {st()} {{ {a} }} }} x: users {st()} {{ {b} }}'
    return f'query Q {{ {body} }}'


def shared_fragment_stream_doc(rng):
    """One named fragment with a streamed (or deferred) selection spread at two places, at one of which the same response
    key is selected again with other sub-fields: what is memoised for one place must not be served to the other."""
    leafs = ['name', 'age', 'active', 'role', 'blob', 'id', 'score']
    a, b, c = rng.sample(leafs, 3)
    lst = rng.choice(['friends', 'nnFriends'])
    st = f'@stream(initialCount: {rng.choice([0, 1, 1, 2])})'
    if rng.random() < 0.75:
        frag = f'fragment F on User {{ {lst} {st} {{ {a} }} }}'
        extra = f'{lst} {st} {{ {b} }}'
    else:
        frag = f'fragment F on User {{ ... @defer(label: "D") {{ best {{ {a} }} }} {c} }}'
        extra = f'... @defer(label: "E") {{ best {{ {b} }} }}'
    p1, p2 = rng.sample(['me', 'nnMe', 'x: me', 'users'], 2)
    first = f'{p1} {{ ...F {extra} }}' if rng.random() < 0.5 else f'{p1} {{ {extra} ...F }}'
    second = f'{p2} {{ ...F }}'
    parts = [first, second]
    rng.shuffle(parts)
    return f'query Q {{ {parts[0]} {parts[1]} }} {frag}'


def nested_shared_defer_doc(rng):
    """A field shared between a fragment that can fail (it selects non-null fields) and a fragment nested inside a
    different sibling fragment: when the first fails while the sibling is still pending, the nested fragment has not been
    released yet but still needs the shared unit of work."""
    leafs = ['name', 'age', 'active', 'role', 'blob', 'roles', 'tags']
    nn = rng.choice(['score', 'id', 'nnBest { id }', 'nnBest { score }', 'nnFriends { id }', 'tags'])
    parent = rng.choice(['me', 'nnMe', 'users', 'me { best', 'users @stream(initialCount: 1)', 'me { nnBest'])
    x = rng.choice(leafs + ['best { name }', 'best { age id }', 'nnBest { name }'])
    y, z = rng.sample(leafs, 2)
    d3 = rng.choice([x, f'{x} {z}', f'{z} {x}'])
    d1 = rng.choice([f'{x} {nn}', f'{nn} {x}'])
    d2 = rng.choice([f'{y} ... @defer(label: "D3") {{ {d3} }}', f'... @defer(label: "D3") {{ {d3} }} {y}', f'best {{ {y} }} ... @defer(label: "D3") {{ {d3} }}'])
    parts = [f'... @defer(label: "D1") {{ {d1} }}', f'... @defer(label: "D2") {{ {d2} }}']
    rng.shuffle(parts)
    body = ' '.join(parts)
    close = ' }' if '{' in parent else ''
    return f'query Q {{ {parent} {{ {rng.choice(["", "id ", y + " "])}{body} }}{close} }}'


def triple_nested_defer_doc(rng):
    """Three lexically nested @defer levels A > B > C with a field selected in A and in C but not in B, B contributing
    nothing of its own (or only what A selects too): the repeated field is a unit of work shared by A and its grandchild."""
    leafs = ['name', 'age', 'active', 'role', 'blob', 'id', 'score']
    parent = rng.choice(['me', 'nnMe', 'users', 'me { best', 'users @stream(initialCount: 1)'])
    close = ' }' if '{' in parent else ''
    x = rng.choice(leafs + ['best { name }', 'nnBest { id age }'])
    y, z, w = rng.sample(leafs, 3)
    a_extra = rng.choice(['', '', y + ' ', f'{y} {z} '])
    b_own = rng.choice(['', '', '', (y + ' ') if a_extra else '', w + ' '])
    c_extra = rng.choice(['', '', ' ' + z])
    c = f'... @defer(label: "C") {{ {x}{c_extra} }}'
    b = f'... @defer(label: "B") {{ {b_own}{c} }}'
    a_parts = [a_extra + x, b]
    rng.shuffle(a_parts)
    a = f'... @defer(label: "A") {{ {" ".join(a_parts)} }}'
    return f'query Q {{ {parent} {{ {rng.choice(["id", "name", w])} {a} }}{close} }}'


_gen_inc = {}


def generated_inc_schema(k):
    if k not in _gen_inc:
        while len(_gen_inc) >= 48:
            _gen_inc.pop(next(iter(_gen_inc)))
        from ..gen.schemas import with_incremental
        from .c02 import generated_schema
        gs = generated_schema(k)
        _gen_inc[k] = None if gs is None else with_incremental(gs)
    return _gen_inc[k]


def gen_request(seed, p_defer=0.35, p_stream=0.35):
    schema = rich_inc()
    rng = random.Random(seed)
    if seed % 11 == 10:
        return schema, split_defer_doc(rng), {}, rng
    if seed % 11 == 9:
        return schema, overlap_defer_doc(rng), {}, rng
    if seed % 11 == 7:
        return schema, list_nested_defer_doc(rng), {}, rng
    if seed % 11 == 6:
        return schema, stream_doc(rng), {}, rng
    if seed % 11 == 5:
        return schema, shared_fragment_stream_doc(rng), {}, rng
    if seed % 11 == 3:
        return schema, nested_shared_defer_doc(rng), {}, rng
    if seed % 11 == 2:
        return schema, triple_nested_defer_doc(rng), {}, rng
    if seed % 11 == 4:
        # mutations: root fields run one after another, the deferred / streamed parts of each belong to one payload stream
        g = DocGen(schema, rng, ops=('mutation',), max_depth=3, p_defer=0.5, p_stream=0.5)
        if rng.random() < 0.3:
            g.op_dirs = ' @experimental_disableErrorPropagation'
        src = g.gen('mutation')
        return schema, src, g.variables(), rng
    if seed % 11 == 8:
        # a generated valid schema (G-schema) with the experimental directives added, instead of the fixed one
        gs = generated_inc_schema((seed * 7919) % 4000)
        if gs is not None:
            schema = gs
    g = DocGen(schema, rng, ops=('query',), max_depth=3, p_defer=p_defer, p_stream=p_stream)
    if rng.random() < 0.3:
        g.op_dirs = ' @experimental_disableErrorPropagation'
    src = g.gen()
    return schema, src, g.variables(), rng


def pooled_error_paths(asm):
    return [e.get('path') for e in asm.errors]


def judge_merge(ctx, asm, ref, ref_noprop, noprop, case, src):
    """asm: Assembler after all payloads; ref: R3 result dict; noprop: operation disables propagation."""
    data = asm.data
    errs = pooled_error_paths(asm)
    ref_errs = ref['error_paths']
    source_failed_in_stream = any(f['label'] is None or True for f in asm.failed if isinstance(asm.locate(f['path']), list)
                                  and any(e.get('path') == f['path'] for e in f['errors']))
    if not ref_errs or (noprop and not source_failed_in_stream):
        ctx.count("assembled_compared_exact")
        if not unordered_equal(data, ref['data']):
            ctx.violation("assembled-differs-from-reference:" + ("no-propagation" if noprop and ref_errs else "error-free"),
                          {"source": src[:700], "difference": first_difference(data, ref['data']), "trace": case.get("trace")}, case)
            return False
        a = collections.Counter(json.dumps(p) for p in errs)
        b = collections.Counter(json.dumps(p) for p in ref_errs)
        if a != b:
            # an error the reference has may be absent only if its position lies under a null of the assembled data
            # (work under a position that a failing list source / resolver nulled first is legitimately abandoned)
            def under_null(path):
                cur = data
                for key in path[:-1]:
                    try:
                        cur = cur[key]
                    except (KeyError, IndexError, TypeError):
                        return True
                    if cur is None:
                        return True
                return False
            missing = [json.loads(x) for x in (b - a)]
            if (a - b) or any(pth is None or not under_null(pth) for pth in missing):
                ctx.violation("assembled-errors-differ-from-reference", {"source": src[:600], "only_delivered": list((a - b))[:4], "only_reference": list((b - a))[:4]}, case)
                return False
        return True
    ctx.count("assembled_compared_refines")
    d = refines(data, ref_noprop['data'], errs, asm.failed, owners=ref_noprop.get('defer_owners'))
    if ref_noprop.get('defer_owners'):
        ctx.count("refines_judged_with_fragment_ownership")
    if d:
        mech = "assembled-does-not-refine-reference"
        info = getattr(d, 'info', None)
        if info and info['kind'] == 'missing-key' and info['failed_chains'] and info['unfailed_chains']:
            announced = {(ev[3], tuple(ev[2])) for ev in asm.events if ev[0] == 'pending'}
            if all(c[-1] not in announced for c in info['unfailed_chains']):
                # the key is a unit of work shared between a fragment that was completed with errors and fragments that were
                # never announced: they were dropped as "empty" because the shared work had completed (recorded finding)
                mech += ":shared-field-lost-when-a-co-owning-fragment-fails"
        ctx.violation(mech, {"source": src[:700], "problem": str(d), "failed": [(f['id'], f['path'], f['label']) for f in asm.failed][:4],
                                                              "error_paths": errs[:6]}, case)
        return False
    # every delivered error must be one the reference (non-propagating) execution also has
    allowed = {json.dumps(p) for p in ref_noprop['error_paths']}
    extra = [p for p in errs if json.dumps(p) not in allowed]
    if extra:
        ctx.violation("delivered-error-unknown-to-reference", {"source": src[:600], "paths": extra[:4]}, case)
        return False
    return True


def one_run(ctx, schema, doc, src, variables, value_fn, ref, ref_noprop, noprop, seed, p_async, policy, early, protocol, merge, base_case, nesting,
            p_iter=0.35, tof=False):
    case = {**base_case, "schedule_seed": seed, "p_async": p_async, "policy": policy, "early": early}
    run, sched, hz, obs = run_incremental(schema, doc, variables, value_fn, seed, p_async=p_async, policy=policy, early=early, p_iter=p_iter,
                                          source_burst=[1, 1, 1, 3, 8][seed % 5], tof=tof, p_double=[0.0, 0.0, 0.35, 0.7][((seed * 2654435761) >> 7) % 4])
    try:
        run.quiesce()
        ctx.count("runs")
        case["trace"] = sched.trace[:40]
        if run.deadlock:
            ctx.violation("logical-deadlock", {"source": src[:600], "trace": sched.trace[-8:], "open": [l for l, f in sched.gates.items() if not f.done()][:5], "early": early}, case)
            return
        if run.exception is not None or obs.kind == 'raised':
            e = run.exception or obs.raised
            ctx.violation(f"incremental-execution-raises:{type(e).__name__}", {"source": src[:600], "exception": repr(e)[:300]}, case)
            return
        asm = Assembler(nesting)
        if obs.kind == 'single':
            ctx.count("single_responses")
            asm.single(obs.initial)
        else:
            ctx.count("incremental_responses")
            asm.initial(obs.initial)
            for p in obs.payloads:
                asm.subsequent(p)
                ctx.count("payloads_merged")
            if obs.raised is not None:
                ctx.violation(f"payload-stream-raises:{type(obs.raised).__name__}", {"source": src[:600], "exception": repr(obs.raised)[:300], "at": obs.raised_at}, case)
                return
            if obs.ended:
                asm.end()
            if obs.extra_payload_objects:
                asm.bad('payload-after-end-of-stream')
        if protocol:
            ctx.count("payload_streams_validated")
            for mech, detail in asm.problems:
                ctx.violation("protocol:" + mech, {"source": src[:700], **detail, "events": asm.events[-12:], "early": early}, case)
                return
            if asm.stream_paths and ref_noprop.get('data') is not None:
                ctx.count("stream_orders_checked", len(asm.stream_paths))
                for mech, detail in stream_order_problems(asm, ref_noprop['data']):
                    ctx.violation("protocol:" + mech, {"source": src[:700], **detail, "events": asm.events[-12:], "early": early}, case)
                    return
        elif asm.problems and merge:
            # a stream that cannot be assembled also fails the merge property
            mech, detail = asm.problems[0]
            if mech.startswith('incremental:'):
                ctx.violation("cannot-assemble:" + mech, {"source": src[:700], **detail, "early": early}, case)
                return
        if merge:
            judge_merge(ctx, asm, ref, ref_noprop, noprop, case, src)
        if any('source-raise' in (e.get('message') or '') for e in asm.errors):
            ctx.count("runs_with_a_failing_list_source")
            if noprop:
                ctx.count("runs_with_a_failing_list_source_and_propagation_disabled")
        if obs.kind == 'incremental' and obs.payloads:
            ctx.nontrivial((src, json.dumps(variables, sort_keys=True, default=repr), early, tuple(sched.trace)))
        ctx.label("payload_counts", str(len(obs.payloads)))
        return asm
    finally:
        run.close()


def is_type_of_variant(schema, seed):
    """For a share of the requests on the fixed schema: the same schema with is_type_of functions on every object type; the
    run then hides __typename from the values and passes no type resolver (see run_incremental(tof=True))."""
    if seed % 13 == 3 and schema is rich_inc():
        from ..gen.schemas import rich_inc_is_type_of
        from ..mon import aharness
        return rich_inc_is_type_of(aharness.is_type_of_factory), True
    return schema, False


def check_request(ctx, seed, k, protocol=False, merge=True):
    schema, src, variables, rng = gen_request(seed)
    schema, tof = is_type_of_variant(schema, seed)
    try:
        doc = parse(src)
    except GraphQLError:
        return
    if validate(schema, doc):
        ctx.count("rejected_by_validate")
        return
    if tof:
        ctx.count("requests_resolved_through_is_type_of")
    if src.startswith('mutation'):
        ctx.count("mutation_requests")
    fault = [0.0, 0.1, 0.25][seed % 3]
    value_fn = make_value(schema, seed, fault)
    if seed % 7 == 6:
        # a slice aimed at list sources that fail after yielding items (the executor must prune what hangs below them)
        fault = 0.3
        value_fn = make_value(schema, seed, fault, kinds=('iter_raise', 'null'))
    ref = Ref(schema, doc, value_fn, variables).run()
    if ref.get('request_error'):
        return
    rn = Ref(schema, doc, value_fn, variables)
    ref_noprop = rn.run(force_no_propagation=True, partial_lists=True)
    ref_noprop['defer_owners'] = defer_owners(rn, ref_noprop.get('data'))
    noprop = 'experimental_disableErrorPropagation' in src
    nesting = defer_label_nesting(doc)
    base_case = {"seed": seed, "source": src, "variables": variables, "fault_rate": fault}
    n = 10 if ctx.tier == "thorough" else 6
    for j in range(n):
        ctx.case()
        one_run(ctx, schema, doc, src, variables, value_fn, ref, ref_noprop, noprop, seed * 100 + j, [0.0, 0.3, 0.7, 1.0, 0.7, 0.5][j % 6],
                ['random', 'fifo', 'lifo', 'slow-source', 'slow-consumer', 'phases', 'burst'][(j + seed) % 7], bool(j % 2), protocol, merge, base_case, nesting, p_iter=0.9 if seed % 11 == 6 else 0.35, tof=tof)
    if k % 199 == 0:
        ctx.sample({"source": src[:500], "variables": variables, "fault_rate": fault})


def run_shard(ctx):
    from ..mon import loop
    loop.selftest()
    base = ctx.seed * 13_000_027 + ctx.shard * 1_000_121
    for k in range(ctx.n(2500, 40000)):
        check_request(ctx, base + k, k)


def replay(ctx, case):
    check_request(ctx, case["seed"], 1)
