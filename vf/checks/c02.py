"""C02 - synchronous execution equals the specification's algorithm (R3)."""
from __future__ import annotations

import collections
import json
import random

from graphql import GraphQLError, execute_sync, parse, validate
from graphql.execution import executor as executor_mod

from ..gen.data import make_resolver, make_value
from ..gen.doc import DocGen
from ..gen.schemas import rich
from ..ref.executor import Ref

LEVEL = "exploration"
LEVEL_TEXT = ("Tens of thousands of generated, validated requests (type-directed documents with fragments, aliases, merged fields, "
              "@skip/@include, variables of every input type, defaults, injected data faults) are executed by the real execute_sync and "
              "by an independent executor written from the specification (R3); data incl. key order, the multiset of error paths, error "
              "locations and the exact (path, kwargs) log of resolver calls must agree, also across request histories on the same schema/"
              "document objects; a wrapper on the executor's sub-selection memo checks every hit against a fresh collection.")
LEVEL_NOTE = ("trusted: R3 (vf/ref/executor.py), the library's parser/validator/schema construction (their correctness is C01/C08-C12/C17/C20); "
              "resolvers treat arguments as read-only; custom scalars pass through")
TECHNIQUE = "runtime monitoring: differential oracle (specification executor) over generated requests and request histories, plus memo-hit invariant wrapper"
RULE = ("schema = the rich fixed schema (2/3 of the cases) or one of 4000 generated valid schemas (G-schema, 1/3); requests = (schema, generated document that validate() accepts, operation name, variables provided/omitted/null/defaulted, data function "
        "with fault rate in {0, .05, .15}: null at non-null, raised / returned exception, wrong __typename, non-list, ill-typed leaf); each is run "
        "1..5 times interleaved with other requests on the same schema and document objects. Non-trivial: the request made >= 3 resolver calls; "
        "distinct = distinct (document text, variables, fault seed).")
ASSUMPTIONS = ["R3 is the specification's execution algorithm (model decisions listed in DESIGN.md C02)",
               "errors are compared as a multiset of paths (order is not mandated) plus 'every error carries the field location'"]
REQUIRED_COUNTERS = ["responses_compared_with_R3", "resolver_calls_compared", "history_reruns_compared"]

_memo = collections.Counter()
_memo_bad = []


def install_memo_monitor():
    """Wrap Executor.collect_subfields: every memo hit must equal a fresh collection for THIS call."""
    if getattr(executor_mod.Executor, "_vf_wrapped", False):
        return
    try:
        from graphql.execution.collect_fields import collect_subfields as fresh
        orig = executor_mod.Executor.collect_subfields
    except Exception:  # noqa: BLE001
        return

    def fingerprint(cf):
        return tuple((k, tuple(id(fd.node) for fd in v)) for k, v in cf.grouped_field_set.items())

    def monitored(self, return_type, field_details_list):
        memo = getattr(self, "_relevant_sub_fields", None)
        before = len(memo) if memo is not None else None
        got = orig(self, return_type, field_details_list)
        _memo["collect_subfields_calls"] += 1
        if before is not None and len(memo) == before:
            _memo["memo_hits_checked"] += 1
            try:
                f = fresh(self.schema, self.fragments, self.variable_values, self.operation, return_type,
                          field_details_list, self.hide_suggestions)
            except Exception:  # noqa: BLE001  (signature changed: monitor unavailable)
                _memo["monitor_unavailable"] += 1
                return got
            if fingerprint(f) != fingerprint(got):
                _memo_bad.append({"return_type": return_type.name,
                                  "fields": [fd.node.name.value for fd in field_details_list],
                                  "fresh_keys": list(f.grouped_field_set), "cached_keys": list(got.grouped_field_set)})
        return got

    executor_mod.Executor.collect_subfields = monitored
    executor_mod.Executor._vf_wrapped = True


def canon(v):
    """Value with Python types made explicit (True != 1, 1 != 1.0)."""
    if isinstance(v, dict):
        return ('dict', tuple((k, canon(x)) for k, x in v.items()))
    if isinstance(v, (list, tuple)):
        return ('list', tuple(canon(x) for x in v))
    return (type(v).__name__, v)


_gen_schemas = {}


def generated_schema(k):
    """A valid schema from G-schema (cached per worker), or None if it has no usable query root."""
    if k not in _gen_schemas:
        # bounded: thousands of cached schemas are millions of live objects, which every full garbage collection has to
        # traverse - and the scheduling checks create cyclic garbage (loops, tasks, futures) all the time
        while len(_gen_schemas) >= 48:
            _gen_schemas.pop(next(iter(_gen_schemas)))
        from graphql import build_schema
        from ..gen.schema import SchemaGen, render_sdl
        m = SchemaGen(random.Random(9_000_000 + k), adversarial=0.0).model()
        try:
            sch = build_schema(render_sdl(m))
            from graphql import is_abstract_type
            # G-data has no conforming value for an abstract type without possible types
            if any(is_abstract_type(t) and not sch.get_possible_types(t) for t in sch.type_map.values()):
                sch = None
            _gen_schemas[k] = sch
        except Exception:  # noqa: BLE001
            _gen_schemas[k] = None
    return _gen_schemas[k]


def with_fragment_variables(doc, seed):
    """The document with a variable `$zzOff: Boolean = true` declared by every fragment and a field switched off by it
    at the top of every selection set inside the fragment, at any depth (sub-selections are collected later, possibly
    merged with nodes from other scopes); half of the spreads pass the value explicitly."""
    from graphql import print_ast
    from graphql.language import ast as A
    from ..mon.astutil import rebuild
    rng = random.Random(seed)

    def name(v):
        return A.NameNode(value=v)
    off = A.FieldNode(alias=name('zzKey'), name=name('__typename'), directives=(A.DirectiveNode(
        name=name('skip'), arguments=(A.ArgumentNode(name=name('if'), value=A.VariableNode(name=name('zzOff'))),)),))
    vdef = A.VariableDefinitionNode(variable=A.VariableNode(name=name('zzOff')), type=A.NamedTypeNode(name=name('Boolean')),
                                    default_value=A.BooleanValueNode(value=True))

    def in_fragment(n):
        if isinstance(n, A.SelectionSetNode):
            return A.SelectionSetNode(selections=(off,) + tuple(n.selections))
        return None
    defs = []
    for d in doc.definitions:
        if isinstance(d, A.FragmentDefinitionNode):
            d2 = rebuild(d, in_fragment)
            defs.append(A.FragmentDefinitionNode(name=d2.name, type_condition=d2.type_condition, directives=d2.directives,
                                                 selection_set=d2.selection_set, variable_definitions=(vdef,)))
        else:
            defs.append(d)

    def spread(n):
        if isinstance(n, A.FragmentSpreadNode) and rng.random() < 0.5:
            return A.FragmentSpreadNode(name=n.name, directives=n.directives,
                                        arguments=(A.FragmentArgumentNode(name=name('zzOff'), value=A.BooleanValueNode(value=True)),))
        return None
    return print_ast(rebuild(A.DocumentNode(definitions=tuple(defs)), spread))


def make_case(seed, schema=None):
    schema = schema or rich()
    rng = random.Random(seed)
    g = DocGen(schema, rng)
    src = g.gen()
    return {"seed": seed, "source": src, "variables": g.variables(), "fault_rate": [0.0, 0.05, 0.15][seed % 3]}


def op_name_of(doc, case):
    """Every third request names its operation explicitly (the document's own name); the others leave it to the library."""
    if case["seed"] % 3 != 1:
        return None
    from graphql.language import OperationDefinitionNode
    op = next((d for d in doc.definitions if isinstance(d, OperationDefinitionNode)), None)
    return op.name.value if op is not None and op.name else None


def run_request(schema, doc, case, op_name=None):
    op_name = op_name or op_name_of(doc, case)
    vf = make_value(schema, case["seed"], case["fault_rate"])
    calls = []
    res = execute_sync(schema, doc, None, variable_values=case["variables"], operation_name=op_name,
                       field_resolver=make_resolver(vf, calls))
    return res, calls, vf


def compare(ctx, schema, doc, case, res, calls, vf, op_name=None):
    """Compare one real response with R3.  Returns a violation tuple or None."""
    op_name = op_name or op_name_of(doc, case)
    if op_name:
        ctx.count("requests_naming_their_operation")
    ref = Ref(schema, doc, vf, case["variables"], op_name).run()
    ctx.count("responses_compared_with_R3")
    if ref.get("request_error"):
        ctx.count("request_errors_compared")
        if not (res.data is None and res.errors):
            return ("request-error-mismatch", {"response": res.formatted})
        return None
    if json.dumps(res.data) != json.dumps(ref["data"]):
        same_unordered = json.dumps(res.data, sort_keys=True) == json.dumps(ref["data"], sort_keys=True)
        return ("data-mismatch:" + ("key-order" if same_unordered else "values"),
                {"impl": res.data, "R3": ref["data"]})
    ep = sorted(json.dumps(e.path) for e in res.errors or [])
    rp = sorted(json.dumps(p) for p in ref["error_paths"])
    if ep != rp:
        return ("error-paths-mismatch", {"impl": ep, "R3": rp})
    for e in res.errors or []:
        if not e.locations or not e.nodes:
            return ("error-without-location", {"error": e.formatted})
    ctx.count("resolver_calls_compared", len(calls))
    a = [(p, canon(k)) for p, k in calls]
    b = [(p, canon(k)) for p, k in ref["calls"]]
    if a != b:
        i = next((i for i, (x, y) in enumerate(zip(a, b)) if x != y), min(len(a), len(b)))
        kind = "arguments" if i < len(a) and i < len(b) and a[i][0] == b[i][0] else "order-or-set"
        return ("resolver-calls-mismatch:" + kind, {"index": i, "impl": repr(a[i:i + 1]), "R3": repr(b[i:i + 1])})
    return None


def check_case(ctx, case, history_rng=None, others=()):
    schema = rich() if case.get("schema") is None else generated_schema(case["schema"])
    try:
        doc = parse(case["source"])
    except GraphQLError:
        ctx.count("generated_doc_unparseable")
        return
    if validate(schema, doc):
        ctx.count("generated_doc_rejected_by_validate")
        return
    ctx.count("validated_requests")
    nbad = len(_memo_bad)
    res, calls, vf = run_request(schema, doc, case)
    v = compare(ctx, schema, doc, case, res, calls, vf)
    if v:
        ctx.violation(v[0], {**v[1], "source": case["source"], "variables": case["variables"]}, case)
        return
    first = json.dumps(res.formatted, default=repr)
    # history: re-run on the same schema and document objects, interleaved with other requests
    if history_rng is not None:
        for _ in range(history_rng.randint(1, 4)):
            for other in others:
                if history_rng.random() < 0.5:
                    try:
                        odoc = other["doc"]
                        if other.get("schema") != case.get("schema"):
                            continue
                        run_request(schema, odoc, other)
                    except Exception:  # noqa: BLE001
                        pass
            res2, calls2, vf2 = run_request(schema, doc, case)
            ctx.count("history_reruns_compared")
            if json.dumps(res2.formatted, default=repr) != first or [(p, canon(k)) for p, k in calls2] != [(p, canon(k)) for p, k in calls]:
                ctx.violation("history-changes-response", {"first": first[:600], "again": json.dumps(res2.formatted, default=repr)[:600],
                                                           "source": case["source"]}, case)
                return
    if len(_memo_bad) > nbad:
        ctx.violation("sub-field-memo:wrong-hit", {**_memo_bad[-1], "source": case["source"]}, case)
    # experimental fragment variables, metamorphically (they are not part of the specification's algorithm, so R3 does not
    # model them): giving every fragment a variable of its own that only switches an extra field off must change
    # nothing - in particular the operation's variables keep their values inside such fragments
    if 'fragment ' in case["source"] and case["seed"] % 4 == 1:
        src2 = with_fragment_variables(doc, case["seed"])
        try:
            doc2 = parse(src2, experimental_fragment_arguments=True)
            ok2 = not validate(schema, doc2)
        except GraphQLError:
            ok2 = False
        if ok2:
            ctx.count("fragment_variable_variants_compared")
            res3, calls3, _ = run_request(schema, doc2, case)
            def essence(r):      # locations shift with the inserted text
                return json.dumps([r.data, sorted((e.message, json.dumps(e.path)) for e in r.errors or [])], default=repr)
            if essence(res3) != essence(res) or [(p, canon(k)) for p, k in calls3] != [(p, canon(k)) for p, k in calls]:
                ctx.violation("fragment-variables-change-the-response", {"source": src2[:700], "variables": case["variables"],
                                                                         "plain": first[:400], "with_fragment_variables": json.dumps(res3.formatted, default=repr)[:400]}, case)
                return
        else:
            ctx.count("fragment_variable_variants_not_valid")
    if len(calls) >= 3:
        ctx.nontrivial((case["source"], json.dumps(case["variables"], sort_keys=True, default=repr), case["seed"]))
    return doc


def run_shard(ctx):
    install_memo_monitor()
    n = ctx.n(40000, 600000)
    base = ctx.seed * 10_000_019 + ctx.shard * 1_000_003
    recent = collections.deque(maxlen=3)
    hr = ctx.rng
    for k in range(n):
        if k % 3 == 2:
            sk = (base + k) % 4000
            gs = generated_schema(sk)
            if gs is None:
                continue
            case = make_case(base + k, gs)
            case["schema"] = sk
            ctx.count("requests_on_generated_schemas")
        else:
            case = make_case(base + k)
        ctx.case()
        doc = check_case(ctx, case, hr if k % 3 == 0 else None, list(recent))
        if doc is not None:
            recent.append({**case, "doc": doc})
        if k % 1999 == 0:
            ctx.sample({"source": case["source"][:500], "variables": case["variables"], "fault_rate": case["fault_rate"]})
    for k, v in _memo.items():
        ctx.count(k, v)


def replay(ctx, case):
    install_memo_monitor()
    check_case(ctx, case, random.Random(0), [])
