"""C14 - field-merge validation accepts exactly what the specification accepts (R6)."""
from __future__ import annotations

import random

from graphql import build_schema, is_leaf_type, is_union_type, is_wrapping_type, parse, validate
from graphql.language import ast as A
from graphql.validation import OverlappingFieldsCanBeMergedRule

from ..mon.astutil import walk
from ..ref.merge import spec_ok

LEVEL = "exploration"
LEVEL_TEXT = ("Tens of thousands of generated documents in which every field exists but aliases collide on purpose, fragments nest and are reached "
              "under exclusive and non-exclusive parents in both orders, and arguments differ (literals, variables, input objects in any key order) are "
              "validated by the real OverlappingFieldsCanBeMergedRule (documents parsed with and without locations) and by an independent implementation "
              "of the specification's FieldsInSetCanMerge / SameResponseShape on expanded selection sets; the verdicts must agree. Documents with "
              "fragment cycles only have to terminate without an exception.")
LEVEL_NOTE = ("trusted: R6 (vf/ref/merge.py); @stream and block-vs-quoted string arguments are not generated (outside the algorithm the property names / ambiguous)")
TECHNIQUE = "runtime monitoring: differential oracle (specification FieldsInSetCanMerge/SameResponseShape) over generated colliding documents, both parse modes"
RULE = ("documents over a schema with objects, interfaces, unions, list/non-null wrapped leaves and enums; 1-4 selections per set, aliases drawn from a small colliding pool, "
        "0-4 fragments spread anywhere (incl. the same fragment under exclusive object types and under a shared interface), a template family 'A exclusive, B/C share a fragment' "
        "in all 6 orders, arguments differing by value / variable / input-object key order; cyclic variants for termination. Non-trivial: at least two fields share a "
        "response name in some expanded selection set; distinct = (document text, parse mode).")
ASSUMPTIONS = ["the iff is judged on documents without fragment cycles; on cyclic documents only termination without an exception is required"]
REQUIRED_COUNTERS = ["verdicts_compared", "conflicting_documents", "mergeable_documents", "cyclic_documents_terminated"]

SDL = '''
interface I { id: ID name: String same: Int other: I list: [I] nn: Int! args(i: Int, s: String, o: In): Int }
type A implements I { id: ID name: String same: Int other: I list: [I] nn: Int! args(i: Int, s: String, o: In): Int
  a: Int x: Int obj: A u: U lst: [Int] nlst: [Int!] deep: A e: E }
type B implements I { id: ID name: String same: Int other: I list: [I] nn: Int! args(i: Int, s: String, o: In): Int
  b: Int x: String obj: B u: U lst: [[Int]] nlst: [Int] deep: B e: E2 }
type C { x: Int! c: Int obj: A id: ID name: Int deep: A }
union U = A | B | C
enum E { P Q } enum E2 { P Q }
input In { k: Int, l: [Int], n: In, m: [In], mm: [[In]] }
type Query { i: I a: A b: B u: U us: [U] c: C }
'''
_schema = None


def schema():
    global _schema
    if _schema is None:
        _schema = build_schema(SDL)
    return _schema


def named(t):
    while is_wrapping_type(t):
        t = t.of_type
    return t


COMPOSITES = ['I', 'A', 'B', 'C', 'U']
ARG_O = ['{k: 1, l: [1]}', '{l: [1], k: 1}', '{k: 2}', '{l: [1, $v]}', '{l: [$v, 1]}', '{n: {k: 1, l: [2]}}', '{n: {l: [2], k: 1}}',
         '{n: {n: {k: 1, l: []}}, k: 3}', '{k: 3, n: {n: {l: [], k: 1}}}', '{l: [[1]]}', '{k: $v}', '{k: null}', '{}',
         '{m: [{k: 1, l: [1]}]}', '{m: [{l: [1], k: 1}]}', '{m: [{k: 1}, {k: 2, n: {k: 3, l: []}}]}', '{m: [{k: 1}, {n: {l: [], k: 3}, k: 2}]}',
         '{mm: [[{k: 1, l: [2]}]]}', '{mm: [[{l: [2], k: 1}]]}', '{n: {m: [{k: $v, l: []}]}}', '{n: {m: [{l: [], k: $v}]}}']


FAMILIES = [['{k: 1, l: [1]}', '{l: [1], k: 1}'], ['{l: [1, $v]}', '{l: [$v, 1]}'], ['{n: {k: 1, l: [2]}}', '{n: {l: [2], k: 1}}'],
            ['{n: {n: {k: 1, l: []}}, k: 3}', '{k: 3, n: {n: {l: [], k: 1}}}'], ['{m: [{k: 1, l: [1]}]}', '{m: [{l: [1], k: 1}]}'],
            ['{m: [{k: 1}, {k: 2, n: {k: 3, l: []}}]}', '{m: [{k: 1}, {n: {l: [], k: 3}, k: 2}]}'], ['{mm: [[{k: 1, l: [2]}]]}', '{mm: [[{l: [2], k: 1}]]}'],
            ['{n: {m: [{k: $v, l: []}]}}', '{n: {m: [{l: [], k: $v}]}}'], ['{k: 2}', '{k: 2}'], ['{}', '{}']]


class Gen:
    def __init__(self, r):
        self.r = r
        self.frags = []
        self.defs = []
        self.fam = r.choice(FAMILIES)      # a document-wide favourite, so that equal-but-reordered arguments meet often
        self.fav_i = r.choice(['1', '2', '$v', 'null'])

    def doc(self):
        s = schema()
        for k in range(self.r.randint(0, 4)):
            cond = self.r.choice(COMPOSITES)
            body = self.ss(s.type_map[cond], 1)
            self.frags.append((f'F{k}', cond))
            self.defs.append(f'fragment F{k} on {cond} {body}')
            if self.r.random() < 0.3:
                # a wrapper that holds nothing but spreads (any depth of such wrappers): what it contributes is only reachable
                # through the fragments it names
                inner = self.r.sample(self.frags, min(len(self.frags), self.r.randint(1, 2)))
                wcond = self.r.choice([cond, inner[0][1]])
                self.frags.append((f'W{k}', wcond))
                self.defs.append(f'fragment W{k} on {wcond} {{ ' + ' '.join('...' + n for n, _ in inner) + ' }')
        q = self.ss(s.query_type, 0)
        return 'query ($v: Int) ' + q + '\n' + '\n'.join(self.defs)

    def ss(self, t, d):
        r = self.r
        s = schema()
        items = []
        for _ in range(r.randint(1, 4)):
            k = r.random()
            if k < 0.22 and d < 4:
                cond = r.choice(COMPOSITES + [None])
                items.append(f'... {"on " + cond if cond else ""} ' + self.ss(s.type_map[cond] if cond else t, d + 1))
            elif k < 0.36 and self.frags:
                items.append('...' + r.choice(self.frags)[0])
            elif is_union_type(t):
                items.append((r.choice(['', 'k: ', 'x: ', 'id: ']) + '__typename'))
            else:
                if r.random() < 0.06:
                    items.append((r.choice(['', 'k: ', 'x: ', 'name: ', 'same: ']) + '__typename'))
                    continue
                fname = r.choice(list(t.fields))
                fdef = t.fields[fname]
                alias = r.choice([''] * 9 + ['k: ', 'x: ', 'id: ', 'same: ', 'obj: ', 'lst: ', 'deep: '])
                args = ''
                if fdef.args and r.random() < 0.8:
                    parts = []
                    if r.random() < 0.5:
                        parts.append('i: ' + (self.fav_i if r.random() < 0.8 else r.choice(['1', '2', '$v', 'null'])))
                    if r.random() < 0.25:
                        parts.append('s: ' + r.choice(['"a"', '"b"', '"a"', '"a"']))
                    if r.random() < 0.6:
                        parts.append('o: ' + (r.choice(self.fam) if r.random() < 0.8 else r.choice(ARG_O)))
                    r.shuffle(parts)
                    if parts:
                        args = '(' + ', '.join(parts) + ')'
                sel = alias + fname + args
                nt = named(fdef.type)
                if not is_leaf_type(nt):
                    sel += ' ' + (self.ss(nt, d + 1) if d < 4 else '{ __typename }')
                items.append(sel)
        return '{ ' + ' '.join(items) + ' }'


def template(r):
    """Exclusive/non-exclusive family: three type-conditioned siblings sharing a response name, two of them via one fragment."""
    t1, t2 = r.sample(['A', 'B', 'C'], 2)
    key = r.choice(['deep', 'obj', 'k'])
    inner1 = r.choice(['x', 'id', 'name', 'a', 'nn', 'lst'])
    inner2 = r.choice(['x', 'id', 'name', 'nn', 'nlst', 'lst', 'same'])
    alias = r.choice(['s', 'x', 'k'])
    fa = {'A': 'deep', 'B': 'deep', 'C': 'deep'}
    subtype = {'A': 'A', 'B': 'B', 'C': 'A'}
    a = f'... on {t1} {{ {key}: {fa[t1]} {{ {alias}: {inner1 if inner1 in _fields(subtype[t1]) else "id"} }} }}'
    b = f'... on {t2} {{ {key}: {fa[t2]} {{ ...X }} }}'
    c = f'... on {t1} {{ {key}: {fa[t1]} {{ ...X }} }}'
    xt = r.choice(['I', subtype[t1], subtype[t2], 'A'])
    x_inner = inner2 if inner2 in _fields(xt) else 'id'
    parts = [a, b, c]
    r.shuffle(parts)
    extra = r.choice(['', '', f'... on {t2} {{ {key}: {fa[t2]} {{ {alias}: id }} }}'])
    return f'{{ u {{ {" ".join(parts)} {extra} }} }}\nfragment X on {xt} {{ {alias}: {x_inner} }}'


def list_template(r):
    """Two list-of-composite fields under one response name, under exclusive object parents (or the same parent), whose
    sub-selections agree in everything the name / argument comparison sees and differ at most in what SameResponseShape
    sees (leaf type, nullability) - inline or through fragments defined after the operation."""
    t1, t2 = r.choice([('A', 'B'), ('B', 'A'), ('A', 'A')])
    alias = r.choice(['f', 'k', 'lst'])
    x = r.choice(['x', 's', 'id'])
    leafs = ['same', 'name', 'nn', 'id']
    in1 = r.choice(leafs)
    in2 = in1 if r.random() < 0.3 else r.choice(leafs)
    deep = r.random() < 0.3
    s1 = f'{{ other {{ {x}: {in1} }} }}' if deep else f'{{ {x}: {in1} }}'
    s2 = f'{{ other {{ {x}: {in2} }} }}' if deep else f'{{ {x}: {in2} }}'
    parent = r.choice(['u', 'i', 'us'])
    if r.random() < 0.5:
        return f'{{ {parent} {{ ... on {t1} {{ {alias}: list {s1} }} ... on {t2} {{ {alias}: list {s2} }} }} }}'
    order = r.random() < 0.5
    q = f'{{ {parent} {{ ... on {t1} {{ {alias}: list {{ ...L1 }} }} ... on {t2} {{ {alias}: list {{ ...L2 }} }} }} }}'
    frs = f'fragment L1 on I {s1}\nfragment L2 on I {s2}'
    return (q + '\n' + frs) if order else (frs + '\n' + q)


def arg_template(r):
    """Two selections of one field whose input-object arguments differ at most in key order."""
    fam = r.choice(FAMILIES)
    v1, v2 = r.choice(fam), r.choice(fam)
    if r.random() < 0.25:
        v2 = r.choice(ARG_O)
    i = r.choice(['', 'i: 1, ', 'i: $v, '])
    f1, f2 = f'args({i}o: {v1})', f'args({i}o: {v2})'
    shape = r.random()
    if shape < 0.3:
        return f'query ($v: Int) {{ a {{ {f1} {f2} }} }}'
    if shape < 0.6:
        return f'query ($v: Int) {{ i {{ ... on A {{ {f1} }} ...G }} }}\nfragment G on I {{ {f2} }}'
    return f'query ($v: Int) {{ u {{ ... on A {{ k: {f1} }} ... on A {{ k: {f2} }} ... on B {{ k: {f2} }} }} }}'


def _fields(tn):
    return schema().type_map[tn].fields


def has_cycle(doc):
    frs = {d.name.value: d for d in doc.definitions if isinstance(d, A.FragmentDefinitionNode)}
    graph = {n: {x.name.value for x in walk(d.selection_set) if isinstance(x, A.FragmentSpreadNode)} for n, d in frs.items()}
    state = {}

    def dfs(n):
        if state.get(n) == 1:
            return True
        if state.get(n) == 2 or n not in graph:
            return False
        state[n] = 1
        for m in graph[n]:
            if dfs(m):
                return True
        state[n] = 2
        return False
    return any(dfs(n) for n in graph)


def add_cycle(r, text):
    lines = text.split('\n')
    fr = [i for i, l in enumerate(lines) if l.startswith('fragment ')]
    if not fr:
        return text + '\nfragment F0 on A { ...F0 x }'
    i = r.choice(fr)
    names = [lines[j].split()[1] for j in fr]
    lines[i] = lines[i].rstrip()[:-1] + ' ...' + r.choice(names) + ' }'
    # make sure a cycle exists: close the loop from the chosen fragment back to itself via the last one
    j = fr[-1]
    lines[j] = lines[j].rstrip()[:-1] + ' ...' + lines[i].split()[1] + ' }'
    return '\n'.join(lines)


def has_shared_key(doc):
    for n in walk(doc):
        if isinstance(n, A.SelectionSetNode):
            keys = [(f.alias or f.name).value for f in n.selections if isinstance(f, A.FieldNode)]
            if len(keys) != len(set(keys)):
                return True
    return False


def check(ctx, text, origin):
    s = schema()
    for nl in (False, True):
        case = {"source": text, "no_location": nl, "origin": origin}
        try:
            doc = parse(text, no_location=nl)
        except Exception:  # noqa: BLE001
            ctx.count("unparseable")
            return
        ctx.case()
        cyclic = has_cycle(doc)
        try:
            errs = validate(s, doc, [OverlappingFieldsCanBeMergedRule], max_errors=10000)
        except RecursionError as e:
            ctx.violation("rule-crash:RecursionError" + (":cyclic-fragments" if cyclic else ""), {"source": text[:500], "exception": repr(e)[:100]}, case)
            continue
        except Exception as e:  # noqa: BLE001
            ctx.violation(f"rule-crash:{type(e).__name__}", {"source": text[:500], "exception": repr(e)[:200]}, case)
            continue
        if cyclic:
            ctx.count("cyclic_documents_terminated")
            continue
        impl_ok = not errs
        ref_ok = spec_ok(s, doc)
        ctx.count("verdicts_compared")
        ctx.count("mergeable_documents" if ref_ok else "conflicting_documents")
        if impl_ok != ref_ok:
            if impl_ok and not ref_ok:
                mech = "conflict-missed"
                if spec_ok(s, doc, typename_typed=False):
                    mech = "typename-has-no-field-def"
            else:
                mech = "spurious-conflict"
            ctx.violation(mech, {"source": text[:700], "no_location": nl, "rule_says": "ok" if impl_ok else [e.message[:200] for e in errs][:2],
                                 "spec_says": "mergeable" if ref_ok else "conflict"}, case)
        if has_shared_key(doc) or not ref_ok:
            ctx.nontrivial((text, nl))


def run_shard(ctx):
    rng = ctx.rng
    for k in range(ctx.n(20000, 350000)):
        m = rng.random()
        if m < 0.7:
            text, origin = Gen(rng).doc(), "gen"
        elif m < 0.82:
            text, origin = template(rng), "template:exclusive-then-shared-fragment"
        elif m < 0.87:
            text, origin = arg_template(rng), "template:reordered-input-object-arguments"
        elif m < 0.92:
            text, origin = list_template(rng), "template:list-fields-under-one-response-name"
        else:
            text, origin = add_cycle(rng, Gen(rng).doc()), "gen+cycle"
        check(ctx, text, origin)
        if k % 2999 == 0:
            ctx.sample({"origin": origin, "source": text[:500]})


def replay(ctx, case):
    check(ctx, case["source"], case.get("origin", "replay"))
