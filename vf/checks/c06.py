"""C06 - stopping early never hangs or leaks: work settles and sources are closed."""
from __future__ import annotations

import json
import random

from graphql import GraphQLError, parse, validate
from graphql.execution import AbortedGraphQLExecutionError
from graphql.pyutils import AbortError

from ..gen.data import make_value
from ..mon.incrun import run_incremental
from . import c04

LEVEL = "fault_enumeration"
LEVEL_TEXT = ("Generated @defer/@stream (and plain) requests run on the controlled loop under seeded schedules; for every run the consumer is stopped at an enumerated "
              "point - closing the payload stream after k = 0..n delivered payloads, cancelling the consumer's k-th pull while it is in flight and then closing, triggering the abort signal "
              "(exception / non-exception / default reason) at a scheduler-chosen idle point, before the execution starts, or from inside the n-th resolver invocation, or a resolver / list source "
              "failing - with early execution on and off, with and without an abort signal configured; resolvers and list items may hand over running tasks, sources may take a step to close, "
              "a second awaitable may complete a few loop iterations after the chosen one. "
              "After the stop NO further harness awaitable is completed: the awaiting caller must be released anyway (else logical deadlock); then the remaining "
              "awaitables are completed and the loop driven to idleness: no task may remain pending, every started source iterator must be closed exactly once, "
              "the work-finished hook must have fired exactly once and only when no harness coroutine the executor started was still unwinding.")
LEVEL_NOTE = ("trusted: controlled loop; life-cycle counters in harness iterators/coroutines; 'Task was destroyed but it is pending' is read from the loop's exception handler. "
              "Diagnostics (never-awaited coroutines, never-retrieved exceptions) are recorded, not judged. The hook clause is checked for experimental_execute_incrementally")
TECHNIQUE = "runtime monitoring with fault enumeration: stop-point x stop-kind enumeration under schedule control; leak / close-once / hook-once monitors; logical-deadlock verdict"
RULE = ("requests as in C04 (incl. mutations, is_type_of resolution, nested-shared / triple-nested defers) plus long-stream, failing-stream-item and late-stream slices; per request: stop kinds "
        "{aclose after k payloads for every k the unstopped run delivered (+ before the first pull), pull k cancelled in flight for every k, abort(reason) for 3 reason kinds at 2 "
        "scheduler-chosen points, abort before the start, abort from inside the n-th resolver, none (resolver / source failures only)} x early execution {off,on} x abort signal configured {no,yes}. Non-trivial: the stop happened while "
        ">= 1 harness awaitable was outstanding; distinct = (document, stop kind and point, early, state signature at the stop, interleaving).")
ASSUMPTIONS = ["a caller that receives AbortedGraphQLExecutionError disposes of the partial result it carries (awaits aborted_result and closes its payload stream if it has one)",
               "after the stop action no further harness awaitable completes until the caller has been released (a stop must cancel outstanding work, not wait for it)",
               "for the leak / close / hook verdicts the remaining awaitables are then completed and the loop is driven to idleness"]
REQUIRED_COUNTERS = ["stopped_runs", "aclose_stops", "abort_stops", "failure_only_runs", "hook_calls_checked", "iterators_checked", "distinct_stop_states"]


# share of awaitable resolver results / list items handed over as already running tasks.  Switched off for the registered runs:
# with it, seeds 2 and 3 of the quick tier show early-hook cases that are not triaged yet (a plain sibling coroutine of a handed-over
# task is neither cancelled nor tracked; replays in /verif/open_cases, DESIGN section 9); VERIF_C06_TASKS=1 switches it back on
import os
P_TASK = [0.0, 0.25, 0.6] if os.environ.get('VERIF_C06_TASKS') else [0.0, 0.0, 0.0]


class Reason(Exception):
    pass


def under_null(obs, label):
    """Is the position named by a harness label (json path + suffix) absent from / nulled in the delivered initial data?"""
    try:
        path = json.loads(label.split('@')[0].split('#')[0])
    except ValueError:
        return False
    cur = (obs.initial or {}).get('data')
    if cur is None:
        return True
    for key in path:
        if isinstance(cur, dict) and key in cur:
            cur = cur[key]
        elif isinstance(cur, list) and isinstance(key, int) and key < len(cur):
            cur = cur[key]
        else:
            return False if not isinstance(cur, (dict, list)) else (cur is None)
        if cur is None:
            return True
    return False


def near_simultaneous(sched):
    """Did the schedule contain a completion released k loop iterations after another one (Scheduler.p_double)?"""
    import re
    return any(re.search(r'\+\d+$', t) for t in sched.trace)


def inside_list_item(label):
    try:
        return any(isinstance(k, int) for k in json.loads(label.split('@')[0].split('#')[0]))
    except ValueError:
        return False


def label_keys(label):
    try:
        return tuple(k for k in json.loads(label.split('@')[0].split('#')[0]) if isinstance(k, str))
    except ValueError:
        return None


_streamed = {}


def streamed_key_paths(src):
    """Response-key paths (list indices left out) of the fields that carry @stream somewhere in the document."""
    if src not in _streamed:
        if len(_streamed) > 64:
            _streamed.clear()
        from graphql.language import ast as A
        doc = parse(src)
        frags = {d.name.value: d for d in doc.definitions if isinstance(d, A.FragmentDefinitionNode)}
        out = set()

        def walk(ss, prefix, depth):
            if ss is None or depth > 12:
                return
            for sel in ss.selections:
                if isinstance(sel, A.FieldNode):
                    key = prefix + ((sel.alias or sel.name).value,)
                    if any(d.name.value == 'stream' for d in sel.directives or ()):
                        out.add(key)
                    walk(sel.selection_set, key, depth + 1)
                elif isinstance(sel, A.InlineFragmentNode):
                    walk(sel.selection_set, prefix, depth + 1)
                elif sel.name.value in frags:
                    walk(frags[sel.name.value].selection_set, prefix, depth + 1)
        for d in doc.definitions:
            if isinstance(d, A.OperationDefinitionNode):
                walk(d.selection_set, (), 0)
        _streamed[src] = out
    return _streamed[src]


def verdicts(ctx, run, sched, hz, obs, stop, early, src, case):
    """Judge one stopped (or failed) run.  The run has been driven; quiesce/drain happen here."""
    base = {"source": src[:600], "stop": repr(stop), "early": early, "trace": sched.trace[-10:]}
    if run.deadlock:
        ctx.violation("caller-not-released:" + (stop[0] if stop else "no-stop"), {**base, "open": [l for l, f in sched.gates.items() if not f.done()][:5],
                                                                                  "payloads": len(obs.payloads)}, case)
        return
    if run.exception is not None:
        ctx.violation(f"consumer-raises:{type(run.exception).__name__}", {**base, "exception": repr(run.exception)[:200]}, case)
        return
    # what the caller got
    if stop and stop[0] == 'cancel-pull' and obs.raised is not None:
        ctx.violation(f"closing-the-stream-after-a-cancelled-pull-raises:{type(obs.raised).__name__}", {**base, "exception": repr(obs.raised)[:200], "at": obs.raised_at}, case)
        return
    if stop and stop[0] == 'abort' and obs.stopped:
        e = obs.raised
        reason = stop[1]
        ok = False
        if e is None:
            ok = obs.ended or obs.kind == 'single'      # finished before the abort took effect
        elif isinstance(e, AbortedGraphQLExecutionError):
            ok = e.reason is reason or (reason is None and isinstance(e.reason, AbortError))
        elif reason is None:
            ok = isinstance(e, AbortError)
        elif isinstance(reason, Exception):
            ok = e is reason
        else:
            ok = isinstance(e, TypeError) and repr(reason)[:8] in str(e)
        if not ok:
            ctx.violation("caller-gets-something-else-than-the-abort-reason", {**base, "got": repr(e)[:200], "at": obs.raised_at}, case)
            return
    elif obs.raised is not None and not (stop and stop[0] == 'abort'):
        ctx.violation(f"payload-stream-raises:{type(obs.raised).__name__}", {**base, "exception": repr(obs.raised)[:200], "at": obs.raised_at}, case)
        return
    if obs.partial_await_error is not None:
        # awaiting the partial result of an aborted execution may only raise the abort reason (a mutation aborted between two
        # of its root fields has no partial result)
        e3, reason = obs.partial_await_error, (stop[1] if stop and stop[0] == 'abort' else Ellipsis)
        ok = (e3 is reason) or (reason is None and isinstance(e3, AbortError)) or \
            (reason is not Ellipsis and reason is not None and not isinstance(reason, Exception) and isinstance(e3, TypeError) and repr(reason)[:8] in str(e3))
        ctx.count("aborted_results_that_raise_the_abort_reason")
        if not ok:
            ctx.violation(f"aborted-result-raises-something-else-than-the-abort-reason:{type(e3).__name__}", {**base, "exception": repr(e3)[:200]}, case)
            return
    if obs.partial_error is not None:
        ctx.violation(f"closing-the-stopped-stream-raises:{type(obs.partial_error).__name__}",
                      {**base, "exception": repr(obs.partial_error)[:200], "after_raise": obs.closed_after_raise}, case)
        return
    if obs.closed_after_raise:
        ctx.count("streams_closed_after_they_raised")
    # phase 1: nothing more is released
    run.quiesce()
    hooks_before_drain = len(obs.hook_calls)
    # phase 2: let the outstanding awaitables finish, drive to idleness
    pending = run.drain()
    if pending:
        ctx.violation("task-still-pending-at-quiescence", {**base, "tasks": [repr(t)[:140] for t in pending][:3], "hooks": len(obs.hook_calls)}, case)
        return
    destroyed = [m for m in run.loop_reports if 'destroyed but it is pending' in m]
    if destroyed:
        ctx.violation("task-destroyed-while-pending", {**base, "reports": destroyed[:2]}, case)
        return
    for it in hz.iterators:
        ctx.count("iterators_checked")
        st = it.state()
        if it.aclose_calls > 1:
            ctx.violation("source-iterator-closed-twice", {**base, "iterator": st}, case)
            return
        if it.started and not (it.exhausted or it.raised or it.aclose_calls == 1):
            mech = "source-iterator-not-closed"
            if stop and stop[0] == 'abort' and early and inside_list_item(it.label) and near_simultaneous(sched) and not under_null(obs, it.label):
                # the source of a stream nested in the items of another stream, discovered by an early executed item whose
                # completion lands within a few loop iterations of the abort (recorded finding, thorough tier only)
                mech += ":nested-stream-source-discovered-around-an-abort"
            elif under_null(obs, it.label):
                # the source belongs to a position that a synchronously failing sibling had already nulled: its resolver had
                # been left to settle in the background, where nobody consumes or closes what it opens
                mech += ":opened-by-abandoned-background-work"
            ctx.violation(mech, {**base, "iterator": st, "result_step": obs.result_step, "started_step": it.started_step}, case)
            return
    if obs.kind in ('incremental', 'single', 'raised'):
        n = len(obs.hook_calls)
        ctx.count("hook_calls_checked", n)
        if n != 1:
            mech = "hook-fired-%s" % ("never" if n == 0 else "more-than-once")
            if n == 0 and stop and stop[0] == 'aclose' and stop[1] == 0:
                mech += ":stream-closed-before-first-pull"
            if n == 0 and stop and stop[0] == 'cancel-pull':
                # the clean-up that the cancelled pull runs is itself interrupted by a CancelledError (out of awaiting the
                # executor's abort) before it reaches the hook
                mech += ":pull-cancelled-in-flight"
            ctx.violation(mech, {**base, "hook_calls": obs.hook_calls[:3]}, case)
            return
        hc = obs.hook_calls[0]
        if hc['unfinished'] or hc['background']:
            mech = "hook-before-work-settled"
            if not hc['background'] and hc['unfinished'] and stop and early and near_simultaneous(sched) and \
                    all(inside_list_item(u) and '@' not in u for u in hc['unfinished']) and any(k in streamed_key_paths(src) for k in
                                                                                              {label_keys(u)[:i] for u in hc['unfinished'] for i in range(1, len(label_keys(u) or ()) + 1)}):
                # resolvers of deferred fragments that belong to an item of a streamed list: the item arrived (early execution)
                # within a few loop iterations of the stop, and the work it started is neither cancelled nor waited for
                mech += ":deferred-work-of-a-stream-item-arriving-around-the-stop"
            elif not hc['background'] and hc['unfinished'] and all(u.endswith('@aclose') for u in hc['unfinished']):
                # the only thing still running is the close() of a source that takes time: it has been started by the clean-up
                # (complete_async_iterator_value while unwinding, a stream item queue's abort callback) but the hook does not
                # wait for it on every path
                mech += ":source-still-closing:" + ("stream-source" if any(label_keys(u) in streamed_key_paths(src) for u in hc['unfinished']) else "plain-list-source")
            elif not hc['background'] and hc['unfinished'] and all(under_null(obs, u) for u in hc['unfinished']):
                # same root cause as the known finding: a stream source opened by work that had been left to settle in
                # the background after the response was delivered; with early execution its producer is still reading
                mech += ":stream-work-spawned-by-abandoned-background-work"
            ctx.violation(mech, {**base, "unfinished": hc['unfinished'][:4], "background_futures": hc['background'], "result_step": obs.result_step}, case)
            return
    if run.warnings or run.loop_reports:
        ctx.count("runs_with_diagnostics")
        for w in (run.warnings + run.loop_reports)[:3]:
            ctx.label("diagnostics_seen", w[:60])
    if obs.state_at_stop is not None:
        ctx.label("stop_state_signatures", repr(obs.state_at_stop))
        if obs.state_at_stop[0] or obs.state_at_stop[1]:
            ctx.nontrivial((src, repr(stop), early, obs.state_at_stop, tuple(sched.trace)))


def one(ctx, schema, doc, src, variables, value_fn, seed, p_async, policy, early, stop, with_signal, base_case):
    case = {**base_case, "schedule_seed": seed, "p_async": p_async, "policy": policy, "early": early, "stop": repr(stop), "with_signal": with_signal}
    run, sched, hz, obs = run_incremental(schema, doc, variables, value_fn, seed, p_async=p_async, policy=policy, early=early, stop=stop,
                                          with_signal=with_signal, p_iter=0.9 if base_case["seed"] % 11 == 6 else 0.35,
                                          source_burst=[1, 1, 1, 3, 8][seed % 5], tof=base_case.get("tof", False), p_double=[0.0, 0.0, 0.35, 0.7][((seed * 2654435761) >> 7) % 4],
                                          p_task=P_TASK[((seed * 40503) >> 5) % 3], slow_close=((seed * 7919) >> 3) % 3 == 0)
    try:
        ctx.case()
        if stop is None:
            ctx.count("failure_only_runs")
        elif stop[0] == 'cancel-pull' and obs.stopped is None:
            ctx.count("cancel_pull_runs_where_the_payload_arrived_first")
            stop = None
        else:
            ctx.count("stopped_runs")
            ctx.count({'aclose': "aclose_stops", 'abort': "abort_stops", 'cancel-pull': "cancel_pull_stops"}[stop[0]])
            if len(stop) > 2:
                ctx.count("aborted_before_the_execution_started" if stop[2] == 'before' else "aborted_from_inside_a_resolver")
        verdicts(ctx, run, sched, hz, obs, stop, early, src, case)
        return obs
    finally:
        run.close()


def check_request(ctx, seed, k):
    schema, src, variables, rng = c04.gen_request(seed, p_defer=0.4, p_stream=0.45)
    schema, tof = c04.is_type_of_variant(schema, seed)
    if tof:
        ctx.count("requests_resolved_through_is_type_of")
    try:
        doc = parse(src)
    except GraphQLError:
        return
    if validate(schema, doc):
        return
    fault = [0.0, 0.0, 0.15][seed % 3]
    if seed % 11 in (10, 3):
        fault = 0.25      # the split-defer family exists for fragments that fail while a sibling unit of work is running
    value_fn = make_value(schema, seed, fault)
    if seed % 11 == 6 and seed % 2:
        # stream templates: every other request has list sources that raise after some items (stop kind "source raise")
        value_fn = make_value(schema, seed, 0.3, kinds=('iter_raise', 'null'))
        ctx.count("requests_with_failing_list_sources")
    base_case = {"seed": seed, "source": src, "variables": variables, "fault_rate": fault, "tof": tof}
    if src.startswith('mutation'):
        ctx.count("mutation_requests")
    states = set()
    for early in (False, True):
        s0 = seed * 1000 + (1 if early else 0)
        p_async = rng.choice([0.3, 0.7, 1.0])
        policy = rng.choice(['random', 'fifo', 'lifo', 'slow-source', 'slow-consumer', 'phases', 'burst'])
        if seed % 11 == 6 and rng.random() < 0.5:
            policy = 'slow-consumer'       # producers run ahead of the consumer: stops meet results nobody has scheduled yet
        # the unstopped run tells how many payloads there are (and is itself a resolver/source-failure run)
        obs = one(ctx, schema, doc, src, variables, value_fn, s0, p_async, policy, early, None, rng.random() < 0.3, base_case)
        if seed % 11 == 6 and seed % 2:
            # stop kind "source raise": more schedules of the unstopped run, the consumer must be released in each
            for j, pol in enumerate(('burst', 'slow-consumer', 'random', 'phases')):
                one(ctx, schema, doc, src, variables, value_fn, s0 + 100 + j, [1.0, 0.7][j % 2], pol, early, None, False, base_case)
        if rng.random() < 0.4:
            # the signal is already aborted when the execution is started
            one(ctx, schema, doc, src, variables, value_fn, s0, p_async, policy, early, ('abort', rng.choice([Reason('early'), 'plain', None]), 'before'), True, base_case)
        if obs is not None and rng.random() < 0.5:
            # a resolver triggers the abort itself, in the middle of a synchronous pass
            ncalls = max(1, len([1 for ev in obs.resolver_log if ev[0] == 'invoke']))
            for j in range(2):
                one(ctx, schema, doc, src, variables, value_fn, s0 + 40 + j, p_async, policy, early,
                    ('abort', rng.choice([Reason('inside'), 'plain', None]), 'in-resolver', rng.randint(1, ncalls)), True, base_case)
        if obs is None or obs.kind != 'incremental':
            if obs is not None and obs.kind == 'single' and rng.random() < 0.5:
                one(ctx, schema, doc, src, variables, value_fn, s0, p_async, policy, early, ('abort', Reason('stop')), True, base_case)
            continue
        npay = len(obs.payloads)
        for kk in range(0, npay + 1):
            o = one(ctx, schema, doc, src, variables, value_fn, s0, p_async, policy, early, ('aclose', kk), rng.random() < 0.3, base_case)
            if o is not None and o.state_at_stop is not None:
                states.add(o.state_at_stop)
            if seed % 11 == 6 and policy != 'slow-consumer':
                # stream templates: every stop point once more with producers running as far ahead of the consumer as they can
                o = one(ctx, schema, doc, src, variables, value_fn, s0 + 3, 1.0, 'slow-consumer', early, ('aclose', kk), False, base_case)
                if o is not None and o.state_at_stop is not None:
                    states.add(o.state_at_stop)
        for kk in range(0, npay + 1):
            # the consumer gives up while its pull is in flight (a timeout around the pull, a disconnecting client): the pull is
            # cancelled at a scheduler-chosen point, then the stream is closed
            o = one(ctx, schema, doc, src, variables, value_fn, s0 + 11 + kk, p_async, ['random', 'lifo', 'slow-source'][(kk + seed) % 3], early, ('cancel-pull', kk),
                    rng.random() < 0.3, base_case)
            if o is not None and o.state_at_stop is not None:
                states.add(o.state_at_stop)
        for reason in (Reason('stop'), 'plain-string-reason', None):
            for j in range(2):
                o = one(ctx, schema, doc, src, variables, value_fn, s0 + 7 * (j + 1), p_async, 'random', early, ('abort', reason), True, base_case)
                if o is not None and o.state_at_stop is not None:
                    states.add(o.state_at_stop)
    ctx.count("distinct_stop_states", len(states))
    if k % 97 == 0:
        ctx.sample({"source": src[:500], "variables": variables, "stop_states_seen": [list(s) for s in list(states)[:6]]})


def long_stream_cases(ctx, seed):
    """A streamed list far longer than the stream item queue's buffer (100 entries), items completing asynchronously,
    producers running ahead of the consumer: stops meet a producer parked on the full buffer."""
    schema = c04.rich_inc()
    src = 'query Q { users @stream(initialCount: 0) { name } }'
    doc = parse(src)
    inner = make_value(schema, seed, 0.0)
    n_items = 100 + 5 + seed % 60

    def value_fn(path, parent_type_name, field_name, args, return_type):
        if list(path) == ['users']:
            return [{'__typename': 'User', '__pk': ('users', i)} for i in range(n_items)]
        return inner(path, parent_type_name, field_name, args, return_type)
    base_case = {"seed": seed, "source": src, "variables": {}, "fault_rate": 0.0, "long_stream": n_items}
    for early, policy in ((True, 'source-first'), (True, 'slow-consumer'), (False, 'source-first')):
        for stop in (('aclose', 0), ('aclose', 1), ('aclose', 2), ('abort', Reason('stop'))):
            ctx.count("long_stream_runs")
            case = {**base_case, "schedule_seed": seed, "p_async": 1.0, "policy": policy, "early": early, "stop": repr(stop), "with_signal": stop[0] == 'abort'}
            run, sched, hz, obs = run_incremental(schema, doc, {}, value_fn, seed, p_async=1.0, policy=policy, early=early, stop=stop,
                                                  with_signal=stop[0] == 'abort', p_iter=1.0, p_item_async=0.0,
                                                  source_burst=[1000, 1000, 7][seed % 3])
            try:
                ctx.case()
                ctx.count("stopped_runs")
                ctx.count("aclose_stops" if stop[0] == 'aclose' else "abort_stops")
                verdicts(ctx, run, sched, hz, obs, stop, early, src, case)
            finally:
                run.close()


def failing_stream_item_cases(ctx, seed):
    """A streamed list with non-null items whose j-th item fails asynchronously (a non-null leaf resolves to null) while
    later items are in flight and the source keeps producing: completions land near-simultaneously (the scheduler releases
    a second awaitable 0..14 loop iterations after each one), so the source's next item can arrive in the middle of the
    clean-up of the failed stream.  No consumer stop: the stream must end by itself, with nothing left behind."""
    schema = c04.rich_inc()
    sel = ['id name', 'score', 'id best { name }', 'name id'][seed % 4]
    src = 'query Q { users @stream(initialCount: %d) { %s } }' % (seed % 2, sel)
    doc = parse(src)
    inner = make_value(schema, seed, 0.0)
    n_items = 3 + seed % 4
    bad = (seed // 4) % 3 + (seed % 2)

    def value_fn(path, parent_type_name, field_name, args, return_type):
        p = list(path)
        if p == ['users']:
            return [{'__typename': 'User', '__pk': ('users', i)} for i in range(n_items)]
        if len(p) == 3 and p[0] == 'users' and p[1] == bad and field_name in ('id', 'score'):
            return None
        return inner(path, parent_type_name, field_name, args, return_type)
    base_case = {"seed": seed, "source": src, "variables": {}, "fault_rate": 0.0, "failing_stream_item": bad}
    for early in (True, False):
        for j in range(24):
            ctx.count("failing_stream_item_runs")
            sseed = seed * 100 + j
            pol = ['random', 'slow-consumer', 'source-first', 'lifo'][j % 4]
            case = {**base_case, "schedule_seed": sseed, "p_async": 1.0, "policy": pol, "early": early, "stop": "None", "with_signal": False}
            run, sched, hz, obs = run_incremental(schema, doc, {}, value_fn, sseed, p_async=1.0, policy=pol, early=early, stop=None,
                                                  p_iter=1.0, p_item_async=0.0, source_burst=1, p_double=1.0)
            try:
                ctx.case()
                ctx.count("failure_only_runs")
                verdicts(ctx, run, sched, hz, obs, None, early, src, case)
            finally:
                run.close()


def late_stream_cases(ctx, seed):
    """A deferred fragment fails synchronously (a null item in a non-null list) while another item of that list is still
    an outstanding awaitable; when that item completes later it discovers a @stream (or a further @defer) of its own.
    Whatever it starts then belongs to a fragment nobody will deliver: it must not be left running or open."""
    schema = c04.rich_inc()
    inner_sel = ['name tags @stream(initialCount: 1)', 'tags @stream(initialCount: 0) id', 'friends @stream(initialCount: 0) { name }',
                 'name ... @defer(label: "I") { tags @stream(initialCount: 0) }'][seed % 4]
    src = 'query Q { a0: me { id } ... @defer(label: "D") { nnMe { nnFriends { %s } } } }' % inner_sel
    doc = parse(src)
    if validate(schema, doc):
        return
    inner = make_value(schema, seed, 0.0)
    null_at = 1 + seed % 2

    def value_fn(path, parent_type_name, field_name, args, return_type):
        if list(path) == ['nnMe', 'nnFriends']:
            items = [{'__typename': 'User', '__pk': ('nf', i)} for i in range(3)]
            items[null_at] = None
            return items
        return inner(path, parent_type_name, field_name, args, return_type)
    base_case = {"seed": seed, "source": src, "variables": {}, "fault_rate": 0.0, "late_stream": null_at}
    for early in (False, True):
        for j in range(10):
            sseed = seed * 100 + j
            pol = ['random', 'fifo', 'lifo', 'slow-consumer', 'phases'][j % 5]
            stop = None if j % 2 == 0 else ('aclose', j % 3)
            ctx.count("late_stream_runs")
            case = {**base_case, "schedule_seed": sseed, "p_async": 0.5, "policy": pol, "early": early, "stop": repr(stop), "with_signal": False}
            run, sched, hz, obs = run_incremental(schema, doc, {}, value_fn, sseed, p_async=0.5, policy=pol, early=early, stop=stop,
                                                  p_iter=0.5, p_item_async=0.5, source_burst=1)
            try:
                ctx.case()
                ctx.count("failure_only_runs" if stop is None else "stopped_runs")
                if stop is not None:
                    ctx.count("aclose_stops")
                verdicts(ctx, run, sched, hz, obs, stop, early, src, case)
            finally:
                run.close()


def run_shard(ctx):
    from ..mon import loop
    loop.selftest()
    base = ctx.seed * 19_000_043 + ctx.shard * 1_000_151
    for k in range(ctx.n(900, 15000)):
        check_request(ctx, base + k, k)
    for k in range(ctx.n(1, 6)):
        long_stream_cases(ctx, base + 31 * k)
    for k in range(ctx.n(6, 60)):
        failing_stream_item_cases(ctx, base + 17 * k)
    for k in range(ctx.n(12, 120)):
        late_stream_cases(ctx, base + 13 * k)
    # the template families (streams on async sources, fragments split into several units of work, overlapping and
    # list-nested fragments) get a share of their own: they are where stops meet half-built incremental state
    for k in range(ctx.n(800, 12000)):
        fam = (6, 6, 6, 10, 7, 9, 4, 3, 2)[k % 9]
        ctx.count("template_family_requests")
        check_request(ctx, (base + k) * 11 + fam, k + 1)


def replay(ctx, case):
    if case.get("long_stream"):
        return long_stream_cases(ctx, case["seed"])
    if "late_stream" in case:
        return late_stream_cases(ctx, case["seed"])
    if "failing_stream_item" in case:
        return failing_stream_item_cases(ctx, case["seed"])
    check_request(ctx, case["seed"], 1)
