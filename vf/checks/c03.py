"""C03 - the response does not depend on when resolvers complete."""
from __future__ import annotations

import json
import random

from graphql import GraphQLError, execute, execute_sync, parse, validate
from graphql.language import OperationDefinitionNode

from ..gen.data import make_resolver, make_value
from ..gen.doc import DocGen
from ..gen.schemas import rich, rich_is_type_of
from ..mon import aharness
from ..mon.aharness import Harness
from ..mon.loop import Run, Scheduler, dfs_scripts
from . import c02

LEVEL = "exploration"
LEVEL_TEXT = ("Generated validated requests (queries and mutations with fragments, merged fields, abstract types, lists, injected data faults) are executed "
              "by the real async executor on a controlled asyncio loop: a seeded scheduler decides which resolver results, list items (coroutines or already settled futures), list iterators, "
              "type-resolver and is_type_of results (incl. values matching two possible types) are awaitable and in which order they complete (random / FIFO / LIFO policies, all permutations when few). Every run's data "
              "is compared with the fully synchronous run; errors are checked for well-formedness against the data; a trace monitor checks that a top-level "
              "mutation field starts only after the previous one's whole subtree completed; the sub-selection memo monitor of C02 stays installed.")
LEVEL_NOTE = ("trusted: the controlled loop (vf/mon/loop.py; overrides asyncio's private _run_once on the pinned interpreter, self-tested at start-up); interleavings are "
              "those of awaitables the harness hands to the executor; the synchronous baseline is itself checked against R3 by C02")
TECHNIQUE = "runtime monitoring with schedule control: controlled asyncio loop + seeded/DFS scheduler; schedule-independence oracle (sync baseline), serial-mutation trace monitor, memo-hit monitor"
RULE = ("requests from G-doc over the rich schema, or for a fifth of the seeds over one of 4000 generated valid schemas (validated), fault rate in {0, .08}; per request 10 (quick) / 16 (thorough) schedules: awaitable probability in {.15,.4,.8,1}, "
        "policy in {random, fifo, lifo}, plus exhaustive DFS over all completion orders when a run has <= 5 gates. Non-trivial: the run released >= 2 gates; "
        "distinct = (document, variables, interleaving signature = sequence of released gate labels).")
ASSUMPTIONS = ["error *sets* may differ between schedules (errors under an already nulled position are dropped); data must not",
               "the awaiting caller is driven by the controlled loop; a logical deadlock is a violation, the wall-clock watchdog is not"]
REQUIRED_COUNTERS = ["schedules_run", "data_compared_with_sync_run", "gates_released", "mutation_root_transitions_checked", "distinct_interleavings"]


def well_formed(res):
    """Errors vs data: every error path ends at or below a null; data null only with a root-reaching error."""
    data = res.data
    errs = res.errors or []
    if data is None:
        return None if errs else "data is null without any error"
    for e in errs:
        p = e.path
        if p is None:
            return f"error without path although data is not null: {e.message[:80]}"
        cur = data
        hit_null = False
        for key in p:
            if cur is None:
                hit_null = True
                break
            try:
                cur = cur[key]
            except (KeyError, IndexError, TypeError):
                return f"error path {p} does not exist in data"
        if cur is None:
            hit_null = True
        if not hit_null:
            return f"error path {p} does not end at or below a null"
    return None


def serial_monitor(log, root_keys, open_gate_labels_at):
    """While top-level mutation field i+1 is being resolved, no resolver under field i may be running or start running.

    Events: ('invoke', path) resolver function called; ('complete', path) synchronous resolver returned;
    ('enter', path) / ('exit', path) asynchronous resolver body started / unwound.
    """
    problems = []
    checked = 0
    running = {}
    order = {k: i for i, k in enumerate(root_keys)}
    current = -1
    for ev, path in log:
        if ev == 'invoke' and len(path) == 1 and path[0] in order:
            checked += 1
            if order[path[0]] < current:
                problems.append({"starting": path[0], "out_of_order": True})
            current = max(current, order[path[0]])
            still = [p for p in running if p[0] in order and order[p[0]] < order[path[0]]]
            if still:
                problems.append({"starting": path[0], "still_running": [list(p) for p in still][:4]})
        if ev == 'enter':
            if path[0] in order and order[path[0]] < current:
                problems.append({"starting": root_keys[current], "still_running": [list(path)], "late_start": True})
            running[path] = running.get(path, 0) + 1
        elif ev == 'exit':
            if path in running:
                running[path] -= 1
                if not running[path]:
                    del running[path]
    return problems, checked


def one_schedule(schema, doc, variables, value_fn, seed, p_async, policy, script=None, tof=False, overlap=None):
    rng = random.Random(seed)
    sched = Scheduler(rng, policy=policy, script=script)
    run = Run(sched)
    hz = Harness(sched, value_fn, seed, p_async=p_async, schema=schema, hide_typename=tof, p_type_async=0.5 if tof else 0.3, overlap=overlap)
    aharness._current[0] = hz

    async def main():
        # tof: values carry no __typename and no type resolver is given, so the default resolver has to ask the
        # (synchronous or awaitable) is_type_of functions of the possible types
        r = execute(schema, doc, None, variable_values=variables, field_resolver=hz.resolver, type_resolver=None if tof else hz.type_resolver)
        if hasattr(r, '__await__'):
            r = await r
        return r
    run.drive(main)
    pending = run.quiesce()
    return run, hz, sched, pending


def check_request(ctx, seed, k):
    schema = rich()
    rng = random.Random(seed)
    if seed % 5 == 4:
        # a generated valid schema (G-schema) instead of the fixed one
        gs = c02.generated_schema((seed * 7919) % 4000)
        if gs is not None:
            schema = gs
            ctx.count("requests_on_generated_schemas")
    tof = seed % 7 == 5 and schema is rich()
    if tof:
        schema = rich_is_type_of(aharness.is_type_of_factory)
        ctx.count("requests_resolved_through_is_type_of")
    g = DocGen(schema, rng, ops=('query', 'query', 'mutation') if schema.mutation_type else ('query',), max_depth=3)
    src = g.gen()
    try:
        doc = parse(src)
    except GraphQLError:
        return
    if validate(schema, doc):
        return
    variables = g.variables()
    fault = [0.0, 0.08][seed % 2]
    value_fn = make_value(schema, seed, fault)
    ovl = None
    if tof:
        ovl = seed if seed % 2 else None      # half of these requests: some values satisfy the is_type_of of two possible types
        if ovl is not None:
            ctx.count("requests_with_values_matching_two_possible_types")
        hz0 = Harness(None, value_fn, seed, sync_only=True, hide_typename=True, overlap=ovl)
        aharness._current[0] = hz0
        base = execute_sync(schema, doc, None, variable_values=variables, field_resolver=hz0.resolver)
    else:
        base = execute_sync(schema, doc, None, variable_values=variables, field_resolver=make_resolver(value_fn))
    base_json = json.dumps(base.data, sort_keys=True)
    op = next(d for d in doc.definitions if isinstance(d, OperationDefinitionNode))
    is_mutation = op.operation.value == 'mutation'
    root_keys = list(base.data) if base.data else []
    case0 = {"seed": seed, "source": src, "variables": variables, "fault_rate": fault}
    nsched = 16 if ctx.tier == "thorough" else 10

    def judge(run, hz, sched, pending, case):
        ctx.count("schedules_run")
        ctx.count("gates_released", len(sched.trace))
        if run.deadlock:
            ctx.violation("logical-deadlock", {"source": src[:500], "trace": sched.trace[-6:], "open_gates": [l for l, f in sched.gates.items() if not f.done()][:4]}, case)
            return
        if run.exception is not None:
            ctx.violation(f"execute-raises:{type(run.exception).__name__}", {"source": src[:500], "exception": repr(run.exception)[:200]}, case)
            return
        res = run.result
        ctx.count("data_compared_with_sync_run")
        if json.dumps(res.data, sort_keys=True) != base_json:
            mech = "data-depends-on-schedule"
            if getattr(hz, 'mixed_overlap', False):
                # a value matching two possible types whose is_type_of checks were partly synchronous, partly awaitable: a
                # synchronous match of a later type is taken at once, without waiting for the pending check of an earlier one
                mech += ":overlapping-is-type-of-with-mixed-sync-and-awaitable-checks"
            if len(c02._memo_bad) > judge.nbad:
                mech = "sub-field-memo:wrong-hit"
            ctx.violation(mech, {"source": src[:600], "sync": base_json[:400], "async": json.dumps(res.data, sort_keys=True)[:400], "trace": sched.trace[:12]}, case)
            return
        if len(c02._memo_bad) > judge.nbad:
            ctx.violation("sub-field-memo:wrong-hit", {**c02._memo_bad[-1], "source": src[:400]}, case)
            return
        if json.dumps(res.data) != json.dumps(base.data):
            ctx.violation("key-order-depends-on-schedule", {"source": src[:600], "sync": json.dumps(base.data)[:300], "async": json.dumps(res.data)[:300]}, case)
            return
        wf = well_formed(res)
        if wf:
            ctx.violation("ill-formed-response", {"source": src[:500], "problem": wf, "response": json.dumps(res.formatted, default=repr)[:400]}, case)
            return
        if pending:
            # work still waiting on unreleased harness awaitables after the result was delivered: the library settles
            # abandoned siblings in the background by design; leaks are C06's business (checked there after draining)
            ctx.count("runs_with_background_work_after_result")
        if is_mutation and len(root_keys) > 1:
            problems, checked = serial_monitor(hz.log, root_keys, None)
            ctx.count("mutation_root_transitions_checked", checked)
            if problems:
                # the known mechanism: a sibling failed *synchronously*, so the executor abandoned the still pending
                # awaitables of that selection set to the background (settle_in_background) and moved on
                def abandoned_after_sync_error(p):
                    for e in res.errors or []:
                        ep = list(e.path or [])
                        if not ep:
                            continue
                        common = 0
                        while common < min(len(p), len(ep)) and p[common] == ep[common]:
                            common += 1
                        if common < 1:
                            continue
                        # below the selection set / list that both share, the failing branch ran without awaiting:
                        # every field resolver on it was synchronous, and a failing list item was a plain value
                        chain = [ep[:i] for i in range(common + 1, len(ep) + 1) if isinstance(ep[i - 1], str)]
                        if not all(hz.mode.get(json.dumps(c)) == 'sync' for c in chain):
                            continue
                        ok = True
                        for i in range(max(common, 1), len(ep)):
                            if isinstance(ep[i], int):
                                fld = ep[:i]
                                while fld and isinstance(fld[-1], int):
                                    fld = fld[:-1]
                                lab = json.dumps(fld)
                                # (items arriving from an async iterator are completed synchronously once they arrived)
                                if hz.mode.get(f'{lab}#{ep[i]}') == 'async':
                                    ok = False
                        if ok and (chain or isinstance(ep[-1], int)):
                            return True
                    return False
                def abandoned_after_list_source_error(p):
                    # the list's own source raised while it was being iterated (complete_list_value /
                    # complete_async_iterator_value): the completions of the items already taken are handed to
                    # settle_in_background and the error bubbles up at once
                    for e in res.errors or []:
                        ep = list(e.path or [])
                        if ep and len(p) > len(ep) and p[:len(ep)] == ep and isinstance(p[len(ep)], int) \
                                and str(e.message).startswith('source-raise@'):
                            return True
                    return False
                kinds = set()
                for pr in problems:
                    for p in pr.get('still_running') or [None]:
                        if p is not None and abandoned_after_sync_error(p):
                            kinds.add('sync')
                        elif p is not None and abandoned_after_list_source_error(p):
                            kinds.add('list')
                        else:
                            kinds.add('other')
                known = 'other' not in kinds
                suffix = ""
                if known:
                    suffix = (":background-work-after-list-source-error" if 'list' in kinds
                              else ":background-work-after-synchronous-sibling-error")
                ctx.violation("mutation-fields-overlap" + suffix,
                              {"source": src[:600], "problems": problems[:2], "trace": sched.trace[:12],
                               "errors": [(e.message[:60], e.path) for e in res.errors or []][:3]}, case)
                return
        sig = (src, json.dumps(variables, sort_keys=True, default=repr), tuple(sched.trace))
        if len(sched.trace) >= 2:
            ctx.nontrivial(sig)
        ctx.label_count = getattr(ctx, 'label_count', 0)

    judge.nbad = len(c02._memo_bad)
    sigs = set()
    for j in range(nsched):
        pol = ['random', 'fifo', 'lifo'][j % 3]
        p_async = [0.15, 0.4, 0.8, 1.0][j % 4]
        s2 = seed * 100 + j
        case = {**case0, "schedule_seed": s2, "p_async": p_async, "policy": pol}
        ctx.case()
        run, hz, sched, pending = one_schedule(schema, doc, variables, value_fn, s2, p_async, pol, tof=tof, overlap=ovl)
        try:
            judge.nbad = judge.nbad
            judge(run, hz, sched, pending, case)
        finally:
            run.close()
        sigs.add(tuple(sched.trace))
        judge.nbad = len(c02._memo_bad)
        # exhaustive orders when the run is small
        if j == 2 and 2 <= len(sched.trace) <= 5:
            def with_script(script, s2=s2, p_async=p_async):
                run2, hz2, sched2, pend2 = one_schedule(schema, doc, variables, value_fn, s2, p_async, 'scripted', script, tof=tof, overlap=ovl)
                try:
                    ctx.case()
                    judge(run2, hz2, sched2, pend2, {**case0, "schedule_seed": s2, "p_async": p_async, "policy": "scripted", "script": script})
                finally:
                    run2.close()
                sigs.add(tuple(sched2.trace))
                judge.nbad = len(c02._memo_bad)
                return sched2.branching
            n, complete = dfs_scripts(with_script, max_runs=130)
            ctx.count("dfs_runs", n)
            if complete:
                ctx.count("requests_with_all_orders_explored")
    ctx.count("distinct_interleavings", len(sigs))
    if k % 199 == 0:
        ctx.sample({"source": src[:400], "variables": variables, "interleavings_seen": len(sigs), "example_schedule": list(next(iter(sigs)))[:8]})


def run_shard(ctx):
    c02.install_memo_monitor()
    from ..mon import loop
    loop.selftest()
    base = ctx.seed * 11_000_027 + ctx.shard * 1_000_099
    for k in range(ctx.n(2400, 40000)):
        check_request(ctx, base + k, k)
    for kk, v in c02._memo.items():
        ctx.count(kk, v)


def replay(ctx, case):
    c02.install_memo_monitor()
    check_request(ctx, case["seed"], 1)
