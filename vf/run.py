"""Driver: shards a check over worker subprocesses, aggregates, writes evidence.

    ./check C09                      quick tier
    ./check C09 --tier thorough
    ./check C09 --replay replays/C09/<digest>.json

Exit codes: 0 held on everything explored; 1 at least one violation that
known_findings.json does not list (a line `VIOLATION property=<id> replay=<path>`
is printed for each distinct mechanism); 2 inconclusive (a deciding monitor saw
nothing, a worker died or hit the wall-clock watchdog).
"""
from __future__ import annotations

import argparse
import hashlib
import importlib
import json
import os
import shutil
import subprocess
import sys
import time

ROOT = os.path.dirname(os.path.dirname(os.path.abspath(__file__)))
REPO_SRC = os.environ.get("VERIF_REPO_SRC", "/repo/src")
PY = os.environ.get("VERIF_PYTHON", "/venv/bin/python")
NCPU = min(16, os.cpu_count() or 1)


def load_known(pid):
    path = os.path.join(ROOT, "known_findings.json")
    known, fixed = {}, {}
    if os.path.exists(path):
        for e in json.load(open(path))["findings"]:
            if e["property"] != pid:
                continue
            (known if e["status"] == "known" else fixed)[e["mechanism"]] = e
    return known, fixed


def main(argv=None):
    ap = argparse.ArgumentParser()
    ap.add_argument("pid")
    ap.add_argument("--tier", default=os.environ.get("VERIF_TIER", "quick"))
    ap.add_argument("--replay")
    ap.add_argument("--shards", type=int, default=int(os.environ.get("VERIF_SHARDS", NCPU)))
    ap.add_argument("--scale", type=float, default=float(os.environ.get("VERIF_SCALE", "1")))
    a = ap.parse_args(argv)
    pid = a.pid.upper()
    tier = "thorough" if a.tier.startswith("t") else "quick"
    seed = int(os.environ.get("VERIF_SEED", "0"))
    mod = importlib.import_module(f"vf.checks.{pid.lower()}")
    known, _fixed = load_known(pid)

    if a.replay:
        return replay(pid, mod, a.replay, known)

    t0 = time.time()
    scratch = bool(os.environ.get("VERIF_NO_EVIDENCE"))  # self-validation runs against mutated copies
    work = os.path.join(ROOT, ".work", pid + (f".{os.getpid()}" if scratch else ""))
    shutil.rmtree(work, ignore_errors=True)
    os.makedirs(work, exist_ok=True)
    nsh = max(1, a.shards)
    watchdog = getattr(mod, "WATCHDOG_S", {"quick": 600, "thorough": 5400})[tier]
    env = dict(os.environ, PYTHONDONTWRITEBYTECODE="1", PYTHONHASHSEED="0",
               VERIF_REPO_SRC=REPO_SRC)
    procs = []
    for sh in range(nsh):
        out = os.path.join(work, f"shard{sh}.json")
        cmd = [PY, "-B", "-m", "vf.worker", pid, tier, str(seed), str(sh), str(nsh), out, str(a.scale)]
        log = open(os.path.join(work, f"shard{sh}.log"), "w")
        procs.append((sh, out, subprocess.Popen(cmd, cwd=ROOT, env=env, stdout=log, stderr=subprocess.STDOUT), log))
    problems = []
    shards = []
    for sh, out, p, log in procs:
        left = max(1.0, watchdog - (time.time() - t0))
        try:
            rc = p.wait(timeout=left)
        except subprocess.TimeoutExpired:
            p.kill()
            p.wait()
            problems.append(f"shard {sh} hit the wall-clock watchdog ({watchdog}s)")
            continue
        finally:
            log.close()
        if rc != 0 or not os.path.exists(out):
            tail = open(os.path.join(work, f"shard{sh}.log")).read()[-1500:]
            problems.append(f"shard {sh} exited {rc}: {tail}")
            continue
        shards.append(json.load(open(out)))

    # ---- aggregate
    evaluations = sum(s["evaluations"] for s in shards)
    sigs = set()
    for s in shards:
        sigs.update(s["sigs"])
    counters = {}
    for s in shards:
        for k, v in s["counters"].items():
            if isinstance(v, list):  # a set of labels
                counters.setdefault(k, set()).update(v)
            else:
                counters[k] = counters.get(k, 0) + v
    counters = {k: (sorted(v) if isinstance(v, set) else v) for k, v in sorted(counters.items())}
    samples = []
    for s in shards:
        for x in s["samples"]:
            if len(samples) < getattr(mod, "MAX_SAMPLES", 12):
                samples.append(x)
    violations = [v for s in shards for v in s["violations"]]
    vcount = {}
    for s in shards:
        for k, n in s["violation_counts"].items():
            vcount[k] = vcount.get(k, 0) + n

    # reach accounting: union over shards of the anchored lines executed
    reach = {}
    for s in shards:
        for rel, r in (s.get("reach") or {}).items():
            e = reach.setdefault(rel, {"hit": set(), "executable": r["executable"]})
            e["hit"].update(r["lines_hit"])
    anchor_reach = {rel: {"lines_executed": len(e["hit"]), "executable_lines": e["executable"],
                          "percent": round(100.0 * len(e["hit"]) / e["executable"], 1) if e["executable"] else None}
                    for rel, e in sorted(reach.items())}
    try:
        os.makedirs(os.path.join(ROOT, ".work"), exist_ok=True)
        json.dump({rel: sorted(e["hit"]) for rel, e in reach.items()}, open(os.path.join(ROOT, ".work", pid + ".reach.json"), "w"))
    except OSError:
        pass
    unlisted = {}
    known_hit = {}
    for v in violations:
        m = v["mechanism"]
        if m in known:
            known_hit.setdefault(m, v)
        else:
            unlisted.setdefault(m, v)
    for m in vcount:
        if m in known:
            known_hit.setdefault(m, None)

    # deciding monitors must have observed something
    required = getattr(mod, "REQUIRED_COUNTERS", [])
    for name in required:
        if not counters.get(name):
            problems.append(f"deciding monitor '{name}' observed nothing")
    if evaluations == 0:
        problems.append("no case was evaluated")

    replay_paths = {}
    for m, v in unlisted.items():
        d = os.path.join(work, "replays") if scratch else os.path.join(ROOT, "replays", pid)
        os.makedirs(d, exist_ok=True)
        body = json.dumps({"property": pid, "mechanism": m, "detail": v["detail"], "case": v["case"]},
                          indent=1, sort_keys=True, default=repr)
        digest = hashlib.sha1(body.encode()).hexdigest()[:12]
        path = os.path.join(d, f"{digest}.json")
        open(path, "w").write(body)
        replay_paths[m] = path

    wall = time.time() - t0
    level = getattr(mod, "LEVEL", "exploration")
    cov = {
        "evaluations": evaluations,
        "distinct_nontrivial": len(sigs),
        "rule": mod.RULE,
        "samples": samples,
        "monitors": counters,
        "shards": len(shards),
        "violation_counts_by_mechanism": vcount,
        "known_findings_hit": sorted(known_hit),
        "anchor_reach": anchor_reach,
        "verdict": "violated" if unlisted else ("inconclusive" if problems else "held on what was observed"),
    }
    if problems:
        cov["inconclusive_reasons"] = problems
    extra = getattr(mod, "extra_coverage", None)
    if extra:
        cov.update(extra(counters, tier))
    ev = {
        "property_id": pid, "tier": tier, "seed": seed, "level": level, "coverage": cov,
        "assumptions": list(getattr(mod, "ASSUMPTIONS", [])),
        "wall_s": round(wall, 2), "violations": len(unlisted),
    }
    evdir = work if scratch else os.path.join(ROOT, "evidence")
    os.makedirs(evdir, exist_ok=True)
    with open(os.path.join(evdir, f"{pid}.json"), "w") as f:
        json.dump(ev, f, indent=1, default=repr)
        f.write("\n")

    print(f"[{pid}] tier={tier} seed={seed} evaluations={evaluations} distinct_nontrivial={len(sigs)} wall={wall:.1f}s")
    for k, v in counters.items():
        print(f"   {k}: {v if not isinstance(v, list) else str(len(v)) + ' labels'}")
    for m in sorted(known_hit):
        print(f"KNOWN-FINDING: property={pid} {m}: {known[m]['what']}")
    for m, v in unlisted.items():
        print(f"   violation mechanism={m} count={vcount.get(m)} detail={json.dumps(v['detail'], default=repr)[:600]}")
        print(f"VIOLATION property={pid} replay={os.path.relpath(replay_paths[m], ROOT)}")
    if unlisted:
        return 1
    if problems:
        for p in problems:
            print(f"INCONCLUSIVE property={pid} reason={p[:800]}")
        return 2
    print(f"[{pid}] held on everything explored")
    return 0


def replay(pid, mod, path, known):
    sys.path.insert(0, REPO_SRC)
    rec = json.load(open(path))
    from vf.worker import Ctx
    ctx = Ctx(pid, "quick", 0, 0, 1, 1.0)
    mod.replay(ctx, rec["case"])
    if not ctx.violations:
        print(f"[{pid}] replay: no violation reproduced")
        return 0
    for v in ctx.violations:
        print(f"   mechanism={v['mechanism']} detail={json.dumps(v['detail'], default=repr)[:1500]}")
        if v["mechanism"] in known:
            print(f"KNOWN-FINDING: property={pid} {v['mechanism']}: {known[v['mechanism']]['what']}")
        else:
            print(f"VIOLATION property={pid} replay={path}")
    return 1 if any(v["mechanism"] not in known for v in ctx.violations) else 0


if __name__ == "__main__":
    sys.exit(main())
