#!/bin/bash
# tools/try_mutant.sh <patch.diff> <PROPERTY-ID> [extra ./check args]
# Applies the patch to a scratch copy of /repo (never to /repo itself), points the check at it
# through VERIF_REPO_SRC, prints the verdict and removes the copy.
set -u
patch=$(readlink -f "$1"); pid=$2; shift 2
d=$(mktemp -d /var/tmp/mut.XXXXXX)
git -C /repo archive HEAD src | tar -x -C "$d"
( cd "$d" && git apply --unsafe-paths -p1 --directory="$d" "$patch" 2>/dev/null || patch -s -p1 < "$patch" ) || { echo "PATCH-FAILED"; rm -rf "$d"; exit 9; }
cd "$(dirname "$0")/.."
out=$(VERIF_REPO_SRC="$d/src" VERIF_NO_EVIDENCE=1 ./check "$pid" "$@" 2>&1); rc=$?
echo "$out" | grep -E "VIOLATION|KNOWN-FINDING|INCONCLUSIVE|violation mechanism|held on|wall=" | cut -c1-400
echo "exit=$rc"
rm -rf "$d"
exit $rc
