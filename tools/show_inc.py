#!/usr/bin/env python3
"""Print the payload stream of one C04/C05/C06 replay case (initial result, payloads, trace).  usage: tools/show_inc.py <replay.json>"""
import json, os, sys
ROOT = os.path.dirname(os.path.dirname(os.path.abspath(__file__)))
sys.path.insert(0, ROOT)
sys.path.insert(0, os.environ.get('VERIF_REPO_SRC', '/repo/src'))
from graphql import parse  # noqa: E402
from vf.checks import c04  # noqa: E402
from vf.gen.data import make_value  # noqa: E402
from vf.mon.incrun import run_incremental  # noqa: E402

case = json.load(open(sys.argv[1]))['case']
seed = case['seed']
schema, src, variables, rng = c04.gen_request(seed)
schema, tof = c04.is_type_of_variant(schema, seed)
assert src == case['source'], (src, case['source'])
value_fn = make_value(schema, seed, case['fault_rate']) if seed % 7 != 6 else make_value(schema, seed, 0.3, kinds=('iter_raise', 'null'))
run, sched, hz, obs = run_incremental(schema, parse(src), variables, value_fn, case['schedule_seed'], p_async=case['p_async'], policy=case['policy'], early=case['early'],
                                      p_iter=0.9 if seed % 11 == 6 else 0.35, source_burst=[1, 1, 1, 3, 8][case['schedule_seed'] % 5], tof=tof,
                                      p_double=[0.0, 0.0, 0.35, 0.7][((case['schedule_seed'] * 2654435761) >> 7) % 4])
print(src)
print('initial', json.dumps(obs.initial))
for p in obs.payloads:
    print('payload', json.dumps(p))
print('ended', obs.ended, 'raised', obs.raised, 'trace', sched.trace)
run.close()
