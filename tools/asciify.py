#!/usr/bin/env python3
"""Replace every non-ASCII character in the given .py files by a \\uXXXX / \\UXXXXXXXX escape.

All non-ASCII characters in this code base live inside (non-raw) string literals; editors and
tools tend to normalise U+2028, U+FEFF etc., so the files are kept pure ASCII.
"""
import sys
for p in sys.argv[1:]:
    s = open(p, encoding='utf-8', newline='').read()
    out = []
    changed = False
    for ch in s:
        cp = ord(ch)
        if cp < 128:
            out.append(ch)
        else:
            changed = True
            out.append('\\u%04x' % cp if cp <= 0xFFFF else '\\U%08x' % cp)
    if changed:
        open(p, 'w', encoding='utf-8', newline='').write(''.join(out))
        print('asciified', p)
