#!/bin/bash
# run the thorough tier of every check once (sequentially), print one line per check
cd "$(dirname "$0")/.."
for id in ${1:-C01 C02 C03 C04 C05 C06 C07 C08 C09 C10 C11 C12 C13 C14 C15 C16 C17 C18 C19 C20}; do
  out=$(VERIF_SEED=${VERIF_SEED:-0} VERIF_NO_EVIDENCE=1 ./check $id --tier thorough 2>&1); rc=$?
  echo "$id exit=$rc $(echo "$out" | grep -E 'wall=' | sed 's/.*evaluations/evaluations/') $(echo "$out" | grep -E 'VIOLATION|INCONCLUSIVE' | head -3 | cut -c1-200 | tr '\n' ' ')"
  echo "$out" | grep -E "violation mechanism" | cut -c1-400
done
