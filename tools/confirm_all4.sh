#!/bin/bash
# round 4: confirm every delivered seeded change of /tmp/wt4/out that has no confirmation log yet; filed as <ID>-7 / <ID>-8
for d in /tmp/wt4/out/C*/m*; do
  [ -f "$d/patch.diff" ] && [ -f "$d/demo.py" ] && [ -f "$d/notes.md" ] || continue
  [ -f "$d/confirm.log" ] && continue
  id=$(basename $(dirname $d)); k=$(basename $d); k=${k#m}; k=$((k+6))
  python3 /verif/tools/confirm_seeded.py $id $k $d > $d/confirm.log 2>&1
  echo "$id-$k: $(grep -o '"confirmed": [a-z]*' $d/confirm.log)"
done
