#!/usr/bin/env python3
"""Print the DESIGN.md section 11 table from seeded/*/meta.json (written by tools/seeded_matrix.py)."""
import json
import os
import re

ROOT = os.path.dirname(os.path.dirname(os.path.abspath(__file__)))
print("| change | round | what was broken (sub-agent's title) | quick check of the property | reported mechanisms |")
print("|---|---|---|---|---|")
for name in sorted(os.listdir(os.path.join(ROOT, "seeded"))):
    mp = os.path.join(ROOT, "seeded", name, "meta.json")
    if not os.path.exists(mp):
        continue
    m = json.load(open(mp))
    pid = m.get("breaks_property") or name.split("-")[0]
    title = re.sub(r"^C\d\d\s*/\s*(m|change )\d\s*(\(second round\))?\s*[-—]\s*", "", m.get("title", "")).replace("|", "/")
    rnd = {"1": 1, "2": 1, "3": 2, "4": 2, "5": 3, "6": 3}.get(name[-1], 4 if pid in ("C01", "C02") else 5)
    if m.get("neutralised_by"):
        verdict, mech = f"neutralised by fix {m['neutralised_by']}", ""
    else:
        d = (m.get("detected_by") or {}).get(pid, {})
        verdict = "**caught**" if d.get("exit") == 1 else ("MISSED" if d.get("exit") == 0 else f"exit {d.get('exit')}")
        mech = ", ".join(d.get("mechanisms", [])[:3])
    print(f"| {name} | {rnd} | {title} | {verdict} | {mech} |")
