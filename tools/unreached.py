#!/usr/bin/env python3
"""Show the function-body lines of a property's anchored files that the last run of its check did not execute.

usage: tools/unreached.py <ID> [file-substring]      (reads .work/<ID>.reach.json written by every ./check run)
"""
import json
import os
import sys

ROOT = os.path.dirname(os.path.dirname(os.path.abspath(__file__)))
sys.path.insert(0, ROOT)
from vf.worker import REPO_SRC, executable_lines  # noqa: E402

pid = sys.argv[1]
sub = sys.argv[2] if len(sys.argv) > 2 else ""
reach = json.load(open(os.path.join(ROOT, ".work", pid + ".reach.json")))
base = os.path.dirname(REPO_SRC.rstrip("/"))
for rel, hit in reach.items():
    if sub not in rel:
        continue
    path = os.path.join(base, rel)
    src = open(path, encoding="utf-8").read().split("\n")
    missing = sorted(executable_lines(path) - set(hit))
    print(f"== {rel}: {len(missing)} unreached")
    for ln in missing:
        print(f"{ln:5d}  {src[ln - 1]}")
