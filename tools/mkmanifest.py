#!/usr/bin/env python3
"""Regenerate MANIFEST.json from the metadata each vf/checks/cXX.py carries."""
import importlib
import json
import os
import sys

ROOT = os.path.dirname(os.path.dirname(os.path.abspath(__file__)))
sys.path.insert(0, ROOT)
sys.path.insert(0, os.environ.get("VERIF_REPO_SRC", "/repo/src"))

props = [json.loads(l) for l in open(os.path.join(ROOT, "properties.jsonl"))]
checks, na = [], []
for p in props:
    pid = p["id"]
    path = os.path.join(ROOT, "vf", "checks", pid.lower() + ".py")
    if not os.path.exists(path):
        na.append({"property_id": pid, "reason": "no check registered yet: the runtime-monitoring check for this property (designed in DESIGN.md section 4) has not been built/validated in /verif so far; the technique applies, nothing is claimed until it runs silently on the unchanged tree"})
        continue
    m = importlib.import_module("vf.checks." + pid.lower())
    checks.append({
        "property_id": pid,
        "quick_cmd": f"./check {pid} --tier quick",
        "thorough_cmd": f"./check {pid} --tier thorough",
        "evidence_file": f"/verif/evidence/{pid}.json",
        "replay_cmd_template": f"./check {pid} --replay {{path}}",
        "engine": "vf",
        "level_claimed": {"category": m.LEVEL, "text": m.LEVEL_TEXT, "design_ref": f"DESIGN.md section 4, {pid}"},
        "level_note": m.LEVEL_NOTE,
        "technique": m.TECHNIQUE,
    })

man = {
    "version": 1,
    "setup_cmd": "cd /verif && /venv/bin/python -B -m vf.selftest",
    "hooks": {
        "guard": "GRAPHQL_CORE_VERIF",
        "enable": "no source hooks exist: every monitor wraps real functions from the harness (module/class attribute replaced before the workload, with evaluation counters) or observes at the public API; checks import the library from /repo/src (override: VERIF_REPO_SRC), so they always run the current working tree",
        "baseline_off_cmd": "cd /repo && /venv/bin/python -m pytest -ra -q -p no:cacheprovider --timeout=900 --continue-on-collection-errors",
        "source_commits": [],
        "add_only": True,
    },
    "engines": [{
        "name": "vf", "path": "vf/", "serves_properties": [c["property_id"] for c in checks],
        "kind_free_text": "runtime monitoring: generated and hostile workloads run on the real code; independent reference models, algebraic laws and trace validators as oracles; a controlled asyncio loop explores completion orders and stop points in virtual time; evidence reports what the monitors observed",
    }],
    "checks": checks,
    "not_applicable": na,
    "notes": "exit 0 = held on everything explored, 1 = violation not listed in known_findings.json (VIOLATION line + replay file), 2 = inconclusive (a deciding monitor saw nothing / watchdog). Fixed defects of graphql-core: see known_findings.json and DESIGN.md section 8.",
}
json.dump(man, open(os.path.join(ROOT, "MANIFEST.json"), "w"), indent=1)
print(f"MANIFEST.json: {len(checks)} checks, {len(na)} not yet claimed")
try:
    import jsonschema
    jsonschema.validate(man, json.load(open("/root/.vp/MANIFEST.schema.json")))
    print("schema ok")
except ImportError:
    pass
