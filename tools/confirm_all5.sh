#!/bin/bash
# confirm every delivered seeded change under <base>/out (default /tmp/wt5) that has no confirmation log yet; filed as <ID>-7 / <ID>-8
base=${1:-/tmp/wt5}; off=${2:-6}
for d in $base/out/C*/m*; do
  [ -f "$d/patch.diff" ] && [ -f "$d/demo.py" ] && [ -f "$d/notes.md" ] || continue
  [ -f "$d/confirm.log" ] && continue
  id=$(basename $(dirname $d)); k=$(basename $d); k=${k#m}; k=$((k+off))
  echo started > $d/confirm.log
  python3 /verif/tools/confirm_seeded.py $id $k $d > $d/confirm.log 2>&1
  echo "$id-$k: $(grep -o '"confirmed": [a-z]*' $d/confirm.log)"
done
