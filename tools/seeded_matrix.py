#!/usr/bin/env python3
"""Run the quick check of the broken property against every filed seeded change and record who catches what.

usage: tools/seeded_matrix.py [<seeded dir name> ...]      (default: all of /verif/seeded/*)

Each change is applied to a scratch copy of /repo/src (never to /repo), the check runs against it through
VERIF_REPO_SRC with VERIF_NO_EVIDENCE=1; the outcome is written into seeded/<id>/meta.json ("detected_by")
and a table is printed (pasted into DESIGN.md section 7).
"""
import json
import os
import re
import subprocess
import sys
import tempfile

ROOT = os.path.dirname(os.path.dirname(os.path.abspath(__file__)))
names = sys.argv[1:] or sorted(os.listdir(os.path.join(ROOT, "seeded")))
rows = []
for name in names:
    d = os.path.join(ROOT, "seeded", name)
    patch = os.path.join(d, "patch.diff")
    if not os.path.exists(patch):
        continue
    meta_p = os.path.join(d, "meta.json")
    meta = json.load(open(meta_p)) if os.path.exists(meta_p) else {}
    pid = meta.get("breaks_property") or name.split("-")[0]
    if meta.get("neutralised_by"):
        rows.append((name, pid, "neutralised by fix " + meta["neutralised_by"], ""))
        continue
    also = meta.get("also_run", [])
    scratch = tempfile.mkdtemp(prefix="mut.", dir="/var/tmp")
    try:
        subprocess.run(f"git -C /repo archive HEAD src | tar -x -C {scratch}", shell=True, check=True)
        ap = subprocess.run(["patch", "-s", "-p1", "-i", patch], cwd=scratch, capture_output=True, text=True)
        if ap.returncode != 0:
            rows.append((name, pid, "PATCH-FAILED", ""))
            continue
        detected = {}
        for check in [pid] + also:
            env = dict(os.environ, VERIF_REPO_SRC=scratch + "/src", VERIF_NO_EVIDENCE="1")
            p = subprocess.run(["./check", check], cwd=ROOT, env=env, capture_output=True, text=True)
            found = re.findall(r"violation mechanism=(\S+) count=(\d+)", p.stdout)
            mechs = sorted({m for m, _ in found})
            detected[check] = {"exit": p.returncode, "mechanisms": mechs[:6], "violating_cases": sum(int(c) for _, c in found)}
        meta["detected_by"] = detected
        json.dump(meta, open(meta_p, "w"), indent=1)
        main = detected[pid]
        rows.append((name, pid, "caught" if main["exit"] == 1 else ("MISSED" if main["exit"] == 0 else f"exit {main['exit']}"), ", ".join(main["mechanisms"][:3])))
    finally:
        subprocess.run(["rm", "-rf", scratch])
for r in rows:
    print("| %s | %s | %s | %s |" % r)
