#!/bin/bash
# tools/sweep.sh "<ids>" "<seeds>" [tier]   - run checks over seeds, print one line per run
cd "$(dirname "$0")/.."
for id in $1; do for sd in $2; do
  out=$(VERIF_SEED=$sd VERIF_NO_EVIDENCE=1 ./check $id --tier ${3:-quick} 2>&1); rc=$?
  echo "$id seed=$sd exit=$rc $(echo "$out" | grep -E 'wall=' | sed 's/.*evaluations/evaluations/') $(echo "$out" | grep -E 'VIOLATION|INCONCLUSIVE' | head -3 | cut -c1-200 | tr '\n' ' ')"
done; done
