#!/bin/bash
# confirm every delivered seeded change that has no confirmation log yet
for d in /tmp/wt/out/C*/m*; do
  [ -f "$d/patch.diff" ] && [ -f "$d/demo.py" ] && [ -f "$d/notes.md" ] || continue
  [ -f "$d/confirm.log" ] && continue
  id=$(basename $(dirname $d)); k=$(basename $d); k=${k#m}
  python3 /verif/tools/confirm_seeded.py $id $k $d > $d/confirm.log 2>&1
  echo "$id-$k: $(grep -o '"confirmed": [a-z]*' $d/confirm.log)"
done
