#!/usr/bin/env python3
"""Fill seeded/*/meta.json: 'title', 'needs_to_manifest' (extracted from the sub-agent's notes.md) and 'what_was_run'."""
import json
import os
import re

ROOT = os.path.dirname(os.path.dirname(os.path.abspath(__file__)))
for name in sorted(os.listdir(os.path.join(ROOT, "seeded"))):
    d = os.path.join(ROOT, "seeded", name)
    mp, np_ = os.path.join(d, "meta.json"), os.path.join(d, "notes.md")
    if not (os.path.exists(mp) and os.path.exists(np_)):
        continue
    meta = json.load(open(mp))
    notes = open(np_, encoding="utf-8").read()
    lines = notes.split("\n")
    meta["title"] = re.sub(r"^#\s*", "", lines[0]).strip()
    sect, take = [], False
    for ln in lines[1:]:
        if re.match(r"^#+\s", ln) or re.match(r"^\*\*[^*]+\*\*\s*$", ln):
            take = bool(re.search(r"need|manifest|trigger|expose|when it shows", ln, re.I))
            continue
        if take:
            sect.append(ln)
    text = " ".join(" ".join(sect).split())
    if not text:
        m = re.search(r"(?is)(needs?|needed|manifest|trigger)[^\n]*\n(.{0,900})", notes)
        text = " ".join((m.group(0) if m else notes[:700]).split())
    meta["needs_to_manifest"] = text[:1200]
    meta["what_was_run"] = ("tools/confirm_seeded.py in a scratch git worktree of /repo at %s: (1) demo.py on the unmodified library -> PASS, "
                            "(2) patch applied, demo.py -> FAIL, (3) patch applied, the repository's own test suite (command of /root/.vp/BASELINE.json) -> %s; "
                            "then tools/seeded_matrix.py: quick tier of the check(s) under 'detected_by' against a scratch copy of /repo/src with the patch applied"
                            % (meta.get("confirmation", {}).get("base_commit"), meta.get("confirmation", {}).get("test_suite_with_change", {}).get("summary")))
    json.dump(meta, open(mp, "w"), indent=1)
    print(name, "|", meta["needs_to_manifest"][:110])
