#!/usr/bin/env python3
"""Confirm a sub-agent's seeded change independently and file it under /verif/seeded/.

usage: tools/confirm_seeded.py <PROPERTY-ID> <k> [<dir with patch.diff demo.py notes.md>]

In a scratch git worktree of /repo (removed afterwards): the patch applies, the library imports,
the repository's own test suite passes with it, demo.py FAILs with it and PASSes without it.
Only then is the change copied to /verif/seeded/<ID>-<k>/ with a meta.json.
"""
import json
import os
import shutil
import subprocess
import sys
import tempfile

pid, k = sys.argv[1], sys.argv[2]
srcdir = sys.argv[3] if len(sys.argv) > 3 else f"/tmp/wt/out/{pid}/m{k}"
patch = os.path.join(srcdir, "patch.rebased.diff")
if not os.path.exists(patch):
    patch = os.path.join(srcdir, "patch.diff")
demo = os.path.join(srcdir, "demo.py")
PY = "/venv/bin/python"


def run(cmd, cwd=None, env=None, timeout=1200):
    e = dict(os.environ)
    e.update(env or {})
    try:
        p = subprocess.run(cmd, cwd=cwd, env=e, capture_output=True, text=True, timeout=timeout)
        return p.returncode, (p.stdout + p.stderr)
    except subprocess.TimeoutExpired:
        return 124, "TIMEOUT"


wt = tempfile.mkdtemp(prefix="seedchk.", dir="/var/tmp")
os.rmdir(wt)
res = {"property": pid, "k": k}
try:
    rc, out = run(["git", "-C", "/repo", "worktree", "add", "--detach", wt, "HEAD"])
    assert rc == 0, out
    base = subprocess.run(["git", "-C", "/repo", "rev-parse", "--short", "HEAD"], capture_output=True, text=True).stdout.strip()
    env = {"PYTHONPATH": f"{wt}/src", "PYTHONDONTWRITEBYTECODE": "1"}
    rc0, out0 = run([PY, demo], cwd="/var/tmp", env=env, timeout=180)
    res["demo_without_change"] = {"exit": rc0, "tail": out0[-300:]}
    rc, out = run(["git", "-C", wt, "apply", patch])
    if rc != 0:
        rc, out = run(["patch", "-s", "-p1", "-i", patch], cwd=wt)
        res["applied_with_fuzz"] = rc == 0
        for junk in ("orig", "rej"):
            subprocess.run(f"find {wt} -name '*.{junk}' -delete", shell=True)
    res["applies"] = rc == 0
    applied_diff = subprocess.run(["git", "-C", wt, "diff"], capture_output=True, text=True).stdout
    if rc != 0:
        res["apply_error"] = out[-400:]
    else:
        rc1, out1 = run([PY, demo], cwd="/var/tmp", env=env, timeout=180)
        res["demo_with_change"] = {"exit": rc1, "tail": out1[-400:]}
        rct, outt = run([PY, "-m", "pytest", "-q", "-rf", "-p", "no:cacheprovider", "-n", "6", "--timeout=900", "-o", "timeout=900"], cwd=wt, env=env, timeout=1800)
        last = [l for l in outt.strip().splitlines() if l.strip()][-1] if outt.strip() else ""
        failed = [l for l in outt.splitlines() if l.startswith("FAILED")][:10]
        res["test_suite_with_change"] = {"exit": rct, "summary": last[-200:], "failed": failed}
    ok = res.get("applies") and rc0 == 0 and res["demo_with_change"]["exit"] != 0 and res["test_suite_with_change"]["exit"] == 0
    res["confirmed"] = bool(ok)
    res["base_commit"] = base
finally:
    subprocess.run(["git", "-C", "/repo", "worktree", "remove", "--force", wt], capture_output=True)
    shutil.rmtree(wt, ignore_errors=True)

print(json.dumps(res, indent=1))
if res.get("confirmed"):
    dst = f"/verif/seeded/{pid}-{k}"
    os.makedirs(dst, exist_ok=True)
    # store the patch as it applies to the current HEAD (git diff of the scratch worktree)
    open(dst + "/patch.diff", "w").write(applied_diff)
    if open(os.path.join(srcdir, "patch.diff")).read() != applied_diff:
        shutil.copy(os.path.join(srcdir, "patch.diff"), dst + "/patch.original.diff")
    shutil.copy(demo, dst + "/demo.py")
    notes = os.path.join(srcdir, "notes.md")
    if os.path.exists(notes):
        shutil.copy(notes, dst + "/notes.md")
    meta = {"breaks_property": pid, "origin": "independent sub-agent given only the property text and a scratch worktree",
            "needs_to_manifest": "see notes.md", "confirmed_by": "tools/confirm_seeded.py", "confirmation": res,
            "detected_by": None}
    mp = dst + "/meta.json"
    if os.path.exists(mp):
        old = json.load(open(mp))
        meta["detected_by"] = old.get("detected_by")
        meta["needs_to_manifest"] = old.get("needs_to_manifest", meta["needs_to_manifest"])
    json.dump(meta, open(mp, "w"), indent=1)
    print("filed", dst)
sys.exit(0 if res.get("confirmed") else 1)
